"""parse.c funcall() / func_params() -> Gen/FuncallGen.lean   (property C06: argument conversions)

What is translated, statement by statement as written:

* the body of the argument loop `while (!equal(tok, ")")) { ... }` of funcall() becomes
      argStep (variadic : Bool) (p : Option TyD) (a : TyD) : Out
  (`variadic` = ty->is_variadic, `p` = param_ty with none = NULL, `a` = arg->ty after add_type(arg));
* the statements between the loop and `*rest = skip(tok, ")")` become  afterLoop variadic p : Out;
* func_params(): `(void)` gives a fixed empty list; an empty list `()` sets is_variadic (emptyParamListIsVariadic),
  array and function parameter types decay to pointers (paramDecays).

Accepted statement shapes (anything else raises ExtractError - never guessed):
    if (C) S [else S]        { S* }        error_tok(tok, "msg");
    arg = new_cast(arg, param_ty | ty_<prim>);        param_ty = param_ty->next;        bool NAME = C;
and, with exactly this text, the parsing statements that do not touch types:
    if (cur != &head) tok = skip(tok, ",");   Node *arg = assign(&tok, tok);   add_type(arg);   cur = cur->next = arg;
Accepted conditions: || && ! ( ) over the atoms
    param_ty   ty->is_variadic   X->kind ==/!= TY_K   X->size REL N   X->size REL Y->size   X->is_unsigned   X->base
    is_integer(X)   is_flonum(X)   is_numeric(X)   NAME (a bool declared earlier in the body)
with X, Y in {param_ty, arg->ty}.  `param_ty->...` is accepted only where param_ty is known to be non-NULL (inside the
then-branch of `if (param_ty)` / the else-branch of `if (!param_ty)`); elsewhere the translator refuses (the model has no
outcome for a NULL dereference, and `param_ty && param_ty->...` inside one condition would need a case split)."""
import re
from common import *

PRIMS = ['ty_void', 'ty_bool', 'ty_char', 'ty_short', 'ty_int', 'ty_long', 'ty_uchar', 'ty_ushort', 'ty_uint', 'ty_ulong',
         'ty_float', 'ty_double', 'ty_ldouble']

TOK = re.compile(r'\s*(->|==|!=|<=|>=|&&|\|\||[A-Za-z_]\w*|\d+|"(?:[^"\\]|\\.)*"|[!(){};,=<>&*?:.\[\]+-])')


def tokenize(text):
    out = []
    i = 0
    text = text.strip()
    while i < len(text):
        m = TOK.match(text, i)
        if not m:
            raise ExtractError(f'funcall: cannot tokenize at {text[i:i + 30]!r}')
        out.append(m.group(1))
        i = m.end()
    return out


# ---------------------------------------------------------------- statements

class P:
    def __init__(self, toks):
        self.t = toks
        self.i = 0

    def peek(self, k=0):
        return self.t[self.i + k] if self.i + k < len(self.t) else None

    def next(self):
        x = self.peek()
        self.i += 1
        return x

    def expect(self, x):
        if self.peek() != x:
            raise ExtractError(f'funcall: expected {x!r}, found {self.peek()!r} near {" ".join(self.t[max(0, self.i - 6):self.i + 4])!r}')
        self.i += 1

    def paren(self):
        """tokens of a balanced parenthesised group; the opening parenthesis is the next token"""
        self.expect('(')
        depth = 1
        out = []
        while True:
            x = self.next()
            if x is None:
                raise ExtractError('funcall: unbalanced parentheses')
            if x == '(':
                depth += 1
            elif x == ')':
                depth -= 1
                if depth == 0:
                    return out
            out.append(x)

    def stmt(self):
        x = self.peek()
        if x == '{':
            self.next()
            body = []
            while self.peek() != '}':
                if self.peek() is None:
                    raise ExtractError('funcall: unbalanced braces')
                body.append(self.stmt())
            self.next()
            return ('block', body)
        if x == 'if':
            self.next()
            c = self.paren()
            a = self.stmt()
            b = None
            if self.peek() == 'else':
                self.next()
                b = self.stmt()
            return ('if', c, a, b)
        if x in ('while', 'for', 'do', 'switch', 'return', 'goto', 'break', 'continue'):
            raise ExtractError(f'funcall: statement {x!r} inside the argument loop is not understood')
        out = []
        while self.peek() != ';':
            if self.peek() is None:
                raise ExtractError('funcall: statement without `;`')
            out.append(self.next())
        self.next()
        return ('simple', out)

    def stmts(self):
        out = []
        while self.peek() is not None:
            out.append(self.stmt())
        return out


IGNORED = {
    'tok = skip ( tok , "," )',
    'Node * arg = assign ( & tok , tok )',
    'add_type ( arg )',
    'cur = cur -> next = arg',
}
IGNORED_IF = 'cur != & head'


# ---------------------------------------------------------------- conditions

class Env:
    def __init__(self, pmode, a, casts, adv, names):
        self.pmode = pmode      # 'unknown' | 'some' | 'none' | 'advanced'
        self.a = a              # Lean expression: current arg->ty
        self.casts = casts      # Lean expressions, in order
        self.adv = adv
        self.names = names      # declared bools

    def copy(self, **kw):
        e = Env(self.pmode, self.a, list(self.casts), self.adv, set(self.names))
        for k, v in kw.items():
            setattr(e, k, v)
        return e


def split_top(toks, sep):
    out, cur, depth = [], [], 0
    for t in toks:
        if t == '(':
            depth += 1
        elif t == ')':
            depth -= 1
        if t == sep and depth == 0:
            out.append(cur)
            cur = []
        else:
            cur.append(t)
    out.append(cur)
    return out


def strip_parens(toks):
    while len(toks) >= 2 and toks[0] == '(':
        depth = 0
        for i, t in enumerate(toks):
            if t == '(':
                depth += 1
            elif t == ')':
                depth -= 1
                if depth == 0:
                    break
        if i == len(toks) - 1:
            toks = toks[1:-1]
        else:
            break
    return toks


REL = {'<': '<', '<=': '≤', '>': '>', '>=': '≥', '==': '=', '!=': '≠'}


def tyref(toks, env, what):
    """`param_ty` / `arg -> ty` -> Lean expression of a TyD"""
    if toks == ['arg', '->', 'ty']:
        return env.a
    if toks == ['param_ty']:
        if env.pmode != 'some':
            raise ExtractError(f'funcall: param_ty is dereferenced in {what!r} where it may be NULL or has been advanced')
        return 'pt'
    raise ExtractError(f'funcall: type expression of unknown shape {" ".join(toks)!r} in {what!r}')


def cond(toks, env):
    toks = strip_parens(list(toks))
    text = ' '.join(toks)
    parts = split_top(toks, '||')
    if len(parts) > 1:
        return '(' + ' || '.join(cond(p, env) for p in parts) + ')'
    parts = split_top(toks, '&&')
    if len(parts) > 1:
        return '(' + ' && '.join(cond(p, env) for p in parts) + ')'
    if toks and toks[0] == '!':
        return '(!' + cond(toks[1:], env) + ')'
    if toks == ['param_ty']:
        if env.pmode == 'some':
            return 'true'
        if env.pmode == 'none':
            return 'false'
        if env.pmode == 'unknown':
            return 'p.isSome'
        raise ExtractError('funcall: param_ty tested after it has been advanced')
    if toks == ['ty', '->', 'is_variadic']:
        return 'variadic'
    if len(toks) == 1 and toks[0] in env.names:
        return toks[0]
    m = re.fullmatch(r'(is_integer|is_flonum|is_numeric) \( (.+) \)', text)
    if m:
        x = tyref(m.group(2).split(' '), env, text)
        f = {'is_integer': 'isInteger', 'is_flonum': 'isFlonum', 'is_numeric': 'isNumeric'}[m.group(1)]
        return f'({f} {x})'
    m = re.fullmatch(r'(.+) -> kind (==|!=) (TY_\w+)', text)
    if m:
        x = tyref(m.group(1).split(' '), env, text)
        return f'({x}.kind {m.group(2)} Kind.{m.group(3)})'
    m = re.fullmatch(r'(.+) -> size (<|<=|>|>=|==|!=) (\d+)', text)
    if m:
        x = tyref(m.group(1).split(' '), env, text)
        return f'(decide ({x}.size {REL[m.group(2)]} {m.group(3)}))'
    m = re.fullmatch(r'(.+) -> size (<|<=|>|>=|==|!=) (.+) -> size', text)
    if m:
        x = tyref(m.group(1).split(' '), env, text)
        y = tyref(m.group(3).split(' '), env, text)
        return f'(decide ({x}.size {REL[m.group(2)]} {y}.size))'
    m = re.fullmatch(r'(.+) -> is_unsigned', text)
    if m:
        return f'{tyref(m.group(1).split(" "), env, text)}.isUnsigned'
    m = re.fullmatch(r'(.+) -> base', text)
    if m:
        return f'{tyref(m.group(1).split(" "), env, text)}.hasBase'
    raise ExtractError(f'funcall: condition of unknown shape: {text!r}')


# ---------------------------------------------------------------- code generation (continuation style)

def flatten(stmts):
    out = []
    for s in stmts:
        if s[0] == 'block':
            out += flatten(s[1])
        else:
            out.append(s)
    return out


def binder(branch):
    return 'pt' if re.search(r'\bpt\b', branch) else '_'


def gen(stmts, env, ind):
    pad = '  ' * ind
    if not stmts:
        return f'{pad}.ok [{", ".join(env.casts)}] {"true" if env.adv else "false"}'
    s, rest = stmts[0], stmts[1:]
    if s[0] == 'block':
        return gen(flatten([s]) + rest, env, ind)
    if s[0] == 'simple':
        text = ' '.join(s[1])
        if text in IGNORED:
            return gen(rest, env, ind)
        m = re.fullmatch(r'error_tok \( tok , ("(?:[^"\\]|\\.)*") \)', text)
        if m:
            return f'{pad}.diag {m.group(1)}'
        m = re.fullmatch(r'arg = new_cast \( arg , (\w+) \)', text)
        if m:
            t = m.group(1)
            if t == 'param_ty':
                if env.pmode != 'some':
                    raise ExtractError('funcall: new_cast(arg, param_ty) where param_ty may be NULL or has been advanced')
                t = 'pt'
            elif t not in PRIMS:
                raise ExtractError(f'funcall: cast to {t!r}: not a primitive type object')
            return gen(rest, env.copy(a=t, casts=env.casts + [t]), ind)
        if text == 'param_ty = param_ty -> next':
            if env.pmode != 'some':
                raise ExtractError('funcall: param_ty->next where param_ty may be NULL')
            return gen(rest, env.copy(pmode='advanced', adv=True), ind)
        m = re.fullmatch(r'bool (\w+) = (.+)', text)
        if m:
            name = m.group(1)
            c = cond(m.group(2).split(' '), env)
            return f'{pad}let {name} := {c}\n' + gen(rest, env.copy(names=env.names | {name}), ind)
        raise ExtractError(f'funcall: statement of unknown shape: {text!r}')
    if s[0] == 'if':
        _, c, a, b = s
        if ' '.join(c) == IGNORED_IF and a == ('simple', 'tok = skip ( tok , "," )'.split(' ')) and b is None:
            return gen(rest, env, ind)
        then_ = flatten([a]) + rest
        else_ = (flatten([b]) if b is not None else []) + rest
        cc = strip_parens(list(c))
        if cc == ['param_ty'] and env.pmode == 'unknown':
            br = gen(then_, env.copy(pmode='some'), ind + 1)
            return (f'{pad}match p with\n{pad}| some {binder(br)} =>\n' + br +
                    f'\n{pad}| none =>\n' + gen(else_, env.copy(pmode='none'), ind + 1))
        if cc == ['!', 'param_ty'] and env.pmode == 'unknown':
            br = gen(else_, env.copy(pmode='some'), ind + 1)
            return (f'{pad}match p with\n{pad}| none =>\n' + gen(then_, env.copy(pmode='none'), ind + 1) +
                    f'\n{pad}| some {binder(br)} =>\n' + br)
        return (f'{pad}if {cond(c, env)} then\n' + gen(then_, env, ind + 1) + f'\n{pad}else\n' + gen(else_, env, ind + 1))
    raise ExtractError('funcall: internal')


# ---------------------------------------------------------------- entry

def generate(repo):
    src = strip_comments(read(repo, 'parse.c'))
    body = function_body(src, r'^static Node \*funcall\(Token \*\*rest, Token \*tok, Node \*fn\)\s*\{', 'funcall()')
    # the parts around the loop, pinned
    must(r'Type \*ty = \(fn->ty->kind == TY_FUNC\) \? fn->ty : fn->ty->base;\s*Type \*param_ty = ty->params;', body,
         'funcall: `ty` / `param_ty` initialisation')
    m = must(r'while \(!equal\(tok, "\)"\)\) \{', body, 'funcall: the argument loop')
    i = m.end() - 1
    depth = 0
    j = i
    while j < len(body):
        if body[j] == '"':
            j += 1
            while body[j] != '"':
                if body[j] == '\\':
                    j += 1
                j += 1
        elif body[j] == '{':
            depth += 1
        elif body[j] == '}':
            depth -= 1
            if depth == 0:
                break
        j += 1
    loop = body[i + 1:j]
    after = body[j + 1:]
    k = after.find('*rest = skip(tok, ")");')
    if k < 0:
        raise ExtractError('funcall: `*rest = skip(tok, ")");` after the loop not found')
    tail = after[k:]
    after = after[:k]
    for pat, what in ((r'node->func_ty = ty;', 'node->func_ty'), (r'node->ty = ty->return_ty;', 'node->ty'),
                      (r'node->args = head\.next;', 'node->args')):
        must(pat, tail, 'funcall: ' + what)
    if re.search(r'\bnew_cast\b|\barg\b', tail.replace('node->args', '')):
        raise ExtractError('funcall: arguments are touched again after the loop')
    env0 = Env('unknown', 'a', [], False, set())
    step = gen(P(tokenize(loop)).stmts(), env0, 1)
    env1 = Env('unknown', 'ty_void', [], False, set())       # no argument in hand after the loop
    if re.search(r'\barg\b', after):
        raise ExtractError('funcall: `arg` used after the loop')
    end = gen(P(tokenize(after)).stmts(), env1, 1)

    # func_params
    fp = function_body(src, r'^static Type \*func_params\(Token \*\*rest, Token \*tok, Type \*ty\)\s*\{', 'func_params()')
    must(r'if \(equal\(tok, "void"\) && equal\(tok->next, "\)"\)\) \{\s*\*rest = tok->next->next;\s*return func_type\(ty\);\s*\}', fp,
         'func_params: the `(void)` case')
    empty_var = re.search(r'if \(cur == &head\)\s*is_variadic = true;', fp) is not None
    must(r'if \(equal\(tok, "\.\.\."\)\) \{\s*is_variadic = true;', fp, 'func_params: `...`')
    must(r'bool is_variadic = false;', fp, 'func_params: is_variadic initialisation')
    must(r'ty->params = head\.next;\s*ty->is_variadic = is_variadic;', fp, 'func_params: result')
    arr = re.search(r'if \(ty2->kind == TY_ARRAY\) \{[^}]*ty2 = pointer_to\(ty2->base\);', fp) is not None
    fun = re.search(r'else if \(ty2->kind == TY_FUNC\) \{[^}]*ty2 = pointer_to\(ty2\);', fp) is not None
    must(r'cur = cur->next = copy_type\(ty2\);', fp, 'func_params: parameter list construction')

    # new_cast: the node's type is a copy of the target type
    nc = function_body(src, r'^Node \*new_cast\(Node \*expr, Type \*ty\)\s*\{', 'new_cast()')
    must(r'node->kind = ND_CAST;', nc, 'new_cast: kind')
    must(r'node->lhs = expr;', nc, 'new_cast: operand')
    must(r'node->ty = copy_type\(ty\);', nc, 'new_cast: type')

    lean = HEADER.format(tool='funcall.py', src='parse.c (funcall, func_params, new_cast)')
    lean += 'import ChibiVerif.Model.C01Codegen\n\nset_option linter.unusedVariables false\n\n'
    lean += 'namespace ChibiVerif.Gen.Funcall\nopen ChibiVerif.Gen.CommonType\nopen ChibiVerif.C01Codegen (isInteger isFlonum)\n\n'
    lean += '/-- type.c `is_numeric` -/\ndef isNumeric (t : TyD) : Bool := isInteger t || isFlonum t\n\n'
    lean += ('/-- outcome of one trip through the argument loop of `funcall()` -/\n'
             'inductive Out where\n'
             '  | diag (msg : String)                       -- `error_tok(tok, msg)`\n'
             '  | ok (casts : List TyD) (advance : Bool)    -- the targets of `arg = new_cast(arg, T)` in order; whether\n'
             '                                              -- `param_ty = param_ty->next` was executed\n'
             '  deriving DecidableEq, Repr\n\n')
    lean += ('/-- the body of `while (!equal(tok, ")"))` in `funcall()`: `variadic` = `ty->is_variadic`, `p` = `param_ty`\n'
             '    (`none` = NULL), `a` = `arg->ty` after `add_type(arg)` -/\n'
             'def argStep (variadic : Bool) (p : Option TyD) (a : TyD) : Out :=\n' + step + '\n\n')
    lean += ('/-- the statements between the loop and `*rest = skip(tok, ")")` -/\n'
             'def afterLoop (variadic : Bool) (p : Option TyD) : Out :=\n' + end + '\n\n')
    lean += ('/-- `func_params()`: an empty parameter list `()` sets `is_variadic` (`if (cur == &head) is_variadic = true;`) -/\n'
             f'def emptyParamListIsVariadic : Bool := {"true" if empty_var else "false"}\n\n')
    lean += ('/-- `func_params()`: a parameter of array / function type is adjusted to a pointer -/\n'
             f'def arrayParamDecays : Bool := {"true" if arr else "false"}\n'
             f'def funcParamDecays : Bool := {"true" if fun else "false"}\n\n')
    lean += 'end ChibiVerif.Gen.Funcall\n'
    return {'FuncallGen.lean': lean}


if __name__ == '__main__':
    import sys
    print(generate(sys.argv[1] if len(sys.argv) > 1 else '/repo')['FuncallGen.lean'])
