"""A deliberately small C front end for the translators: tokens -> expression / statement
trees for the leaf functions that are translated to Lean (unicode.c codecs, tokenize.c
ladders).  Anything outside the subset raises ExtractError (the check then reports the tie
as broken); nothing is guessed.

Expression nodes (tuples):
  ('num', value, suffix) ('chr', value) ('str', text) ('id', name)
  ('un', op, e)  op in * & ! - ~            ('cast', ctype, e)
  ('bin', op, a, b)                          ('cond', c, a, b)
  ('idx', a, i) ('call', name, [args]) ('mem', '->' | '.', e, field)
  ('postinc', e) ('postdec', e) ('preinc', e) ('predec', e)
  ('assign', op, lhs, rhs)  op in = += -= |= &= <<= >>= ...
Statement nodes:
  ('block', [s]) ('if', c, then, else|None) ('ret', e|None) ('expr', e)
  ('decl', ctype, name, init|None) ('for', init_stmt|None, cond|None, step|None, body)
  ('while', cond, body) ('continue',) ('break',)
"""
import re
from common import ExtractError

TYPE_WORDS = {'unsigned', 'signed', 'char', 'short', 'int', 'long', 'bool', 'void', 'static', 'const',
              'uint8_t', 'uint16_t', 'uint32_t', 'uint64_t', 'int8_t', 'int16_t', 'int32_t', 'int64_t',
              'Type', 'Token', 'File', 'size_t', 'double', 'float', 'StringKind'}

_TOK = re.compile(r'''\s*(?:
    (?P<num>0[bB][01]+|0[xX][0-9a-fA-F]+|\d+)(?P<suf>[uUlL]*)(?![\w.])
  | (?P<id>[A-Za-z_]\w*)
  | (?P<chr>'(?:\\.|[^\\'])')
  | (?P<str>"(?:\\.|[^"\\])*")
  | (?P<op><<=|>>=|\+\+|--|->|<<|>>|<=|>=|==|!=|&&|\|\||[-+*/%&|^]=|[-+*/%&|^~!<>=?:;,.(){}\[\]])
)''', re.X)

SIMPLE_ESC = {'n': 10, 't': 9, 'r': 13, '0': 0, '\\': 92, "'": 39, '"': 34, 'a': 7, 'b': 8, 'f': 12, 'v': 11}


def _safe_int(s):
    if s[:2].lower() == '0b':
        return int(s[2:], 2)
    if re.fullmatch(r'0[0-7]+', s):      # python's int(s, 0) rejects C octal such as 017
        return int(s, 8)
    return int(s, 0)


def tokenize(text):
    toks = []
    i = 0
    n = len(text)
    while True:
        while i < n and text[i].isspace():
            i += 1
        if i >= n:
            break
        m = _TOK.match(text, i)
        if not m or m.end() == i:
            raise ExtractError(f'cmini: cannot tokenize at {text[i:i+30]!r}')
        if m.group('num') is not None:
            toks.append(('num', _safe_int(m.group('num')), m.group('suf')))
        elif m.group('id') is not None:
            toks.append(('id', m.group('id')))
        elif m.group('chr') is not None:
            body = m.group('chr')[1:-1]
            if body.startswith('\\'):
                if body[1] not in SIMPLE_ESC:
                    raise ExtractError(f'cmini: character constant {m.group("chr")} not understood')
                toks.append(('chr', SIMPLE_ESC[body[1]], m.group('chr')))
            else:
                if ord(body) > 126 or ord(body) < 32:
                    raise ExtractError(f'cmini: non-ASCII character constant {m.group("chr")!r}')
                toks.append(('chr', ord(body), m.group('chr')))
        elif m.group('str') is not None:
            toks.append(('str', m.group('str')[1:-1]))
        else:
            toks.append(('op', m.group('op')))
        i = m.end()
    return toks


BINPREC = [
    ('||',), ('&&',), ('|',), ('^',), ('&',), ('==', '!='), ('<', '<=', '>', '>='),
    ('<<', '>>'), ('+', '-'), ('*', '/', '%'),
]
ASSIGN_OPS = {'=', '+=', '-=', '*=', '/=', '%=', '&=', '|=', '^=', '<<=', '>>='}


class Parser:
    def __init__(self, text):
        self.toks = tokenize(text)
        self.i = 0

    # ------------------------------------------------------------ helpers
    def peek(self, k=0):
        return self.toks[self.i + k] if self.i + k < len(self.toks) else ('eof',)

    def at_op(self, *ops):
        t = self.peek()
        return t[0] == 'op' and t[1] in ops

    def eat_op(self, op):
        if not self.at_op(op):
            raise ExtractError(f'cmini: expected {op!r}, found {self.peek()!r} (token {self.i})')
        self.i += 1

    def try_op(self, op):
        if self.at_op(op):
            self.i += 1
            return True
        return False

    def at_type(self, k=0):
        t = self.peek(k)
        return t[0] == 'id' and t[1] in TYPE_WORDS

    def parse_type(self):
        words = []
        while self.at_type():
            words.append(self.peek()[1])
            self.i += 1
        stars = 0
        while self.at_op('*'):
            stars += 1
            self.i += 1
        words = [w for w in words if w not in ('static', 'const')]
        return ' '.join(words) + '*' * stars

    # ------------------------------------------------------------ expressions
    def expr(self):
        e = self.assign()
        while self.at_op(','):
            raise ExtractError('cmini: comma operator not supported')
        return e

    def assign(self):
        lhs = self.cond()
        t = self.peek()
        if t[0] == 'op' and t[1] in ASSIGN_OPS:
            self.i += 1
            rhs = self.assign()
            return ('assign', t[1], lhs, rhs)
        return lhs

    def cond(self):
        c = self.binary(0)
        if self.try_op('?'):
            a = self.expr()
            self.eat_op(':')
            b = self.cond()
            return ('cond', c, a, b)
        return c

    def binary(self, level):
        if level == len(BINPREC):
            return self.unary()
        e = self.binary(level + 1)
        while self.at_op(*BINPREC[level]):
            op = self.peek()[1]
            self.i += 1
            r = self.binary(level + 1)
            e = ('bin', op, e, r)
        return e

    def unary(self):
        if self.at_op('('):
            if self.at_type(1):
                self.i += 1
                ty = self.parse_type()
                self.eat_op(')')
                if self.at_op('{'):
                    raise ExtractError('cmini: compound literal not supported')
                return ('cast', ty, self.unary())
        for op in ('*', '&', '!', '-', '~'):
            if self.at_op(op):
                self.i += 1
                return ('un', op, self.unary())
        if self.try_op('++'):
            return ('preinc', self.unary())
        if self.try_op('--'):
            return ('predec', self.unary())
        return self.postfix()

    def postfix(self):
        e = self.primary()
        while True:
            if self.try_op('['):
                i = self.expr()
                self.eat_op(']')
                e = ('idx', e, i)
            elif self.at_op('(') and e[0] == 'id':
                self.i += 1
                args = []
                if not self.at_op(')'):
                    args.append(self.assign())
                    while self.try_op(','):
                        args.append(self.assign())
                self.eat_op(')')
                e = ('call', e[1], args)
            elif self.at_op('->') or self.at_op('.'):
                op = self.peek()[1]
                self.i += 1
                f = self.peek()
                if f[0] != 'id':
                    raise ExtractError('cmini: member name expected')
                self.i += 1
                e = ('mem', op, e, f[1])
            elif self.try_op('++'):
                e = ('postinc', e)
            elif self.try_op('--'):
                e = ('postdec', e)
            else:
                return e

    def primary(self):
        t = self.peek()
        if t[0] == 'num':
            self.i += 1
            return ('num', t[1], t[2])
        if t[0] == 'chr':
            self.i += 1
            return ('chr', t[1])
        if t[0] == 'str':
            self.i += 1
            return ('str', t[1])
        if t[0] == 'id':
            self.i += 1
            return ('id', t[1])
        if self.try_op('('):
            e = self.expr()
            self.eat_op(')')
            return e
        raise ExtractError(f'cmini: unexpected token {t!r}')

    # ------------------------------------------------------------ statements
    def block_items(self):
        items = []
        while not self.at_op('}') and self.peek()[0] != 'eof':
            items.append(self.stmt())
        return items

    def stmt(self):
        t = self.peek()
        if self.try_op('{'):
            items = self.block_items()
            self.eat_op('}')
            return ('block', items)
        if self.try_op(';'):
            return ('block', [])
        if t[0] == 'id':
            if t[1] == 'if':
                self.i += 1
                self.eat_op('(')
                c = self.expr()
                self.eat_op(')')
                th = self.stmt()
                el = None
                if self.peek() == ('id', 'else'):
                    self.i += 1
                    el = self.stmt()
                return ('if', c, th, el)
            if t[1] == 'return':
                self.i += 1
                e = None if self.at_op(';') else self.expr()
                self.eat_op(';')
                return ('ret', e)
            if t[1] == 'for':
                self.i += 1
                self.eat_op('(')
                init = None
                if not self.at_op(';'):
                    init = self.decl_or_expr_stmt()
                else:
                    self.eat_op(';')
                cond = None if self.at_op(';') else self.expr()
                self.eat_op(';')
                step = None if self.at_op(')') else self.expr()
                self.eat_op(')')
                return ('for', init, cond, step, self.stmt())
            if t[1] == 'while':
                self.i += 1
                self.eat_op('(')
                c = self.expr()
                self.eat_op(')')
                return ('while', c, self.stmt())
            if t[1] == 'continue':
                self.i += 1
                self.eat_op(';')
                return ('continue',)
            if t[1] == 'break':
                self.i += 1
                self.eat_op(';')
                return ('break',)
            if t[1] in ('switch', 'do', 'goto', 'case', 'default'):
                raise ExtractError(f'cmini: statement {t[1]} not supported')
        return self.decl_or_expr_stmt()

    def decl_or_expr_stmt(self):
        if self.at_type():
            ty = self.parse_type()
            name = self.peek()
            if name[0] != 'id':
                raise ExtractError('cmini: declarator name expected')
            self.i += 1
            if self.at_op('['):
                raise ExtractError('cmini: array declarator not supported')
            init = None
            if self.try_op('='):
                init = self.assign()
            decls = [('decl', ty, name[1], init)]
            while self.try_op(','):
                # further declarators of the same (non-pointer) type: `int i = 0, j = 0;`
                if '*' in ty or self.at_op('*'):
                    raise ExtractError('cmini: several pointer declarators in one declaration are not supported')
                nm = self.peek()
                if nm[0] != 'id':
                    raise ExtractError('cmini: declarator name expected')
                self.i += 1
                if self.at_op('['):
                    raise ExtractError('cmini: array declarator not supported')
                ini = self.assign() if self.try_op('=') else None
                decls.append(('decl', ty, nm[1], ini))
            self.eat_op(';')
            return decls[0] if len(decls) == 1 else ('block', decls)
        e = self.expr()
        self.eat_op(';')
        return ('expr', e)


def parse_body(text):
    p = Parser(text)
    items = p.block_items()
    if p.peek()[0] != 'eof':
        raise ExtractError(f'cmini: trailing tokens {p.peek()!r}')
    return items


def parse_expr(text):
    p = Parser(text)
    e = p.expr()
    if p.peek()[0] != 'eof':
        raise ExtractError(f'cmini: trailing tokens after expression {p.peek()!r}')
    return e


def unblock(s):
    """a statement as a list of statements"""
    if s is None:
        return []
    if s[0] == 'block':
        return s[1]
    return [s]


# ---------------------------------------------------------------- typed emission to Lean BitVec
# C types of the subset after integer promotion: i32 u32 i64 u64; 'bool' for conditions.

WIDTH = {'i32': 32, 'u32': 32, 'i64': 64, 'u64': 64}
CTYPE = {'int': 'i32', 'unsigned': 'u32', 'unsigned int': 'u32', 'uint32_t': 'u32', 'int32_t': 'i32',
         'long': 'i64', 'int64_t': 'i64', 'unsigned long': 'u64', 'uint64_t': 'u64'}


def common_type(a, b):
    wa, wb = WIDTH[a], WIDTH[b]
    if wa != wb:
        wide, narrow = (a, b) if wa > wb else (b, a)
        return wide                      # the wider type represents every value of the narrower (32 vs 64)
    return a if a == b else ('u32' if wa == 32 else 'u64')


class Emitter:
    """Turns an expression tree into Lean text over BitVec.  `env` maps a C identifier to
    (lean_text, type) where type is one of i32/u32/i64/u64 (already promoted), 'bool', or
    'char'/'uchar' for byte values (lean text must be a `BitVec 8`).  `index` handles a[i] / *p."""

    def __init__(self, env, index=None, calls=None):
        self.env = env
        self.index = index
        # calls: C function name -> (result, lean_name) with result 'bool' (an int used as a truth value) or a type of WIDTH;
        # the single argument must be a byte (`*p`, `p[k]`, a `char` variable), passed to the Lean function as a `BitVec 8`
        self.calls = calls or {}

    def call(self, e):
        name, args = e[1], e[2]
        if name not in self.calls or len(args) != 1:
            raise ExtractError(f'cmini: call of {name} with {len(args)} argument(s) not supported')
        txt, ty = self.value_nopromote(args[0])
        if ty not in ('char', 'uchar'):
            raise ExtractError(f'cmini: argument of {name} is not a byte')
        res, lean = self.calls[name]
        return f'({lean} ({txt}))', res

    def lit(self, v, w):
        return f'0x{v:X}#{w}' if v > 9 else f'{v}#{w}'

    def promote(self, txt, ty):
        if ty == 'char':
            return f'({txt}).signExtend 32', 'i32'
        if ty == 'uchar':
            return f'({txt}).zeroExtend 32', 'i32'
        return txt, ty

    def convert(self, txt, frm, to):
        if frm == to or WIDTH[frm] == WIDTH[to]:
            return txt
        if WIDTH[frm] < WIDTH[to]:
            return f'({txt}).signExtend {WIDTH[to]}' if frm[0] == 'i' else f'({txt}).zeroExtend {WIDTH[to]}'
        return f'({txt}).setWidth {WIDTH[to]}'

    def value(self, e):
        """-> (lean_text : BitVec w, ctype) ; raises for boolean-valued expressions"""
        k = e[0]
        if k == 'num':
            suf = e[2].lower()
            v = e[1]
            if 'u' in suf:
                ty = 'u64' if ('l' in suf or v >= 2**32) else 'u32'
            elif 'l' in suf:
                ty = 'i64'
            else:
                # decimal/other literal of the *host* compiler: int if it fits (all translated constants do)
                if v >= 2**31:
                    raise ExtractError(f'cmini: literal {v} does not fit int; host typing not modelled')
                ty = 'i32'
            return self.lit(v, WIDTH[ty]), ty
        if k == 'chr':
            return self.lit(e[1], 32), 'i32'
        if k == 'id':
            if e[1] not in self.env:
                raise ExtractError(f'cmini: unknown identifier {e[1]}')
            txt, ty = self.env[e[1]]
            if ty == 'bool':
                raise ExtractError(f'cmini: boolean {e[1]} used as a value')
            return self.promote(txt, ty)
        if k == 'call':
            txt, res = self.call(e)
            if res == 'bool':
                raise ExtractError(f'cmini: truth value of {e[1]}() used as a number')
            return txt, res
        if k in ('idx', 'un') and (k == 'idx' or e[1] == '*'):
            if self.index is None:
                raise ExtractError('cmini: memory access not expected here')
            txt, ty = self.index(e)
            return self.promote(txt, ty)
        if k == 'cast':
            txt, ty = self.value_nopromote(e[2])
            tgt = e[1]
            if tgt == 'unsigned char':
                # truncate to 8 bits, value then promotes to int by zero extension
                if ty in ('char', 'uchar'):
                    return f'({txt}).zeroExtend 32', 'i32'
                return f'(({txt}).setWidth 8).zeroExtend 32', 'i32'
            if tgt == 'char':
                if ty in ('char', 'uchar'):
                    return f'({txt}).signExtend 32', 'i32'
                return f'(({txt}).setWidth 8).signExtend 32', 'i32'
            if tgt in CTYPE:
                txt, ty = self.promote(txt, ty)
                return self.convert(txt, ty, CTYPE[tgt]), CTYPE[tgt]
            raise ExtractError(f'cmini: cast to {tgt} not supported')
        if k == 'un' and e[1] == '~':
            txt, ty = self.value(e[2])
            return f'(~~~({txt}))', ty
        if k == 'un' and e[1] == '-':
            txt, ty = self.value(e[2])
            return f'(-({txt}))', ty
        if k == 'bin':
            op = e[1]
            if op in ('<<', '>>'):
                a, ta = self.value(e[2])
                if e[3][0] != 'num':
                    raise ExtractError('cmini: shift amount must be an integer literal')
                n = e[3][1]
                if n >= WIDTH[ta]:
                    raise ExtractError('cmini: shift amount exceeds the width (undefined behaviour)')
                if op == '<<':
                    return f'(({a}) <<< {n})', ta
                return (f'(({a}) >>> {n})' if ta[0] == 'u' else f'(({a}).sshiftRight {n})'), ta
            if op in ('|', '&', '^', '+', '-', '*'):
                a, ta = self.value(e[2])
                b, tb = self.value(e[3])
                t = common_type(ta, tb)
                a, b = self.convert(a, ta, t), self.convert(b, tb, t)
                lop = {'|': '|||', '&': '&&&', '^': '^^^', '+': '+', '-': '-', '*': '*'}[op]
                return f'(({a}) {lop} ({b}))', t
            raise ExtractError(f'cmini: operator {op} does not yield an integer value in the subset')
        raise ExtractError(f'cmini: expression kind {k} not supported as a value')

    def value_nopromote(self, e):
        if e[0] == 'id' and e[1] in self.env and self.env[e[1]][1] in ('char', 'uchar'):
            return self.env[e[1]]
        if (e[0] == 'idx' or (e[0] == 'un' and e[1] == '*')) and self.index is not None:
            return self.index(e)
        return self.value(e)

    def cond(self, e):
        """-> lean text of a decidable Prop"""
        k = e[0]
        if k == 'bin' and e[1] in ('&&', '||'):
            return f'({self.cond(e[2])} {"∧" if e[1] == "&&" else "∨"} {self.cond(e[3])})'
        if k == 'un' and e[1] == '!':
            return f'(¬ {self.cond(e[2])})'
        if (k == 'bin' and e[1] in ('==', '!=') and e[2][0] == 'id' and self.env.get(e[2][1], (None, None))[1] == 'nat'
                and e[3][0] == 'num'):
            return f'({self.env[e[2][1]][0]} {"=" if e[1] == "==" else "≠"} {e[3][1]})'
        if k == 'bin' and e[1] in ('<', '<=', '>', '>=', '==', '!='):
            a, ta = self.value(e[2])
            b, tb = self.value(e[3])
            t = common_type(ta, tb)
            a, b = self.convert(a, ta, t), self.convert(b, tb, t)
            op = e[1]
            if op == '==':
                return f'(({a}) = ({b}))'
            if op == '!=':
                return f'(({a}) ≠ ({b}))'
            lop = {'<': '<', '<=': '≤', '>': '>', '>=': '≥'}[op]
            if t[0] == 'u':
                return f'(({a}) {lop} ({b}))'
            return f'(({a}).toInt {lop} ({b}).toInt)'
        if k == 'id' and e[1] in self.env and self.env[e[1]][1] == 'bool':
            return f'({self.env[e[1]][0]} = true)'
        if k == 'call' and e[1] in self.calls and self.calls[e[1]][0] == 'bool':
            return f'({self.call(e)[0]} = true)'
        txt, ty = self.value(e)
        return f'(({txt}) ≠ 0#{WIDTH[ty]})'
