#!/usr/bin/env python3
"""prints the seeded-change prompt for a property: seed_prompt.py Cxx <tag> [hint]"""
import json, sys
pid, tag = sys.argv[1], sys.argv[2]
hint = sys.argv[3] if len(sys.argv) > 3 else ''
p = next(json.loads(l) for l in open('/verif/properties.jsonl') if json.loads(l)['id'] == pid)
t = open('/verif/tools/seed_prompt.txt').read()
print(t.replace('{WT}', f'/tmp/seed/{tag}').replace('{OUT}', f'/tmp/seed/out_{tag}').replace('{TITLE}', p['title'])
       .replace('{STATEMENT}', p['statement']).replace('{QUANT}', p['quantifier']['text']).replace('{WHY}', p['why_tests_cant'])
       .replace('{PID}', pid).replace('{HINT}', hint))
