#!/bin/sh
# runs the repository's suite (guard off) in $1 (default /repo) and compares with BASELINE.json's stable_pass
dir=${1:-/repo}
cd "$dir" && make -s chibicc >/dev/null 2>&1
make test 2>&1 | grep "^testing" | grep "passed" | sed 's/ \.\.\. .*//' | sort -u > /tmp/.baseline_now.$$
python3 - /tmp/.baseline_now.$$ <<'PY'
import json,sys
b=set(json.load(open('/root/.vp/BASELINE.json'))['stable_pass'])
n=set(l.rstrip('\n') for l in open(sys.argv[1]))
miss=b-n
print(f"baseline: {len(b&n)}/{len(b)} passed" + (f" MISSING {sorted(miss)}" if miss else ""))
sys.exit(1 if miss else 0)
PY
rc=$?; rm -f /tmp/.baseline_now.$$; exit $rc
