#!/usr/bin/env python3
"""Regenerates /verif/MANIFEST.json from the plugins (checklib/Cxx.py: MANIFEST dict) and tools/not_applicable.json."""
import json, os, sys, importlib
V = os.path.dirname(os.path.dirname(os.path.abspath(__file__)))
sys.path.insert(0, V)
props = [json.loads(l)['id'] for l in open(os.path.join(V, 'properties.jsonl'))]
na_reasons = json.load(open(os.path.join(V, 'tools/not_applicable.json')))
hooks_commits = json.load(open(os.path.join(V, 'tools/hook_commits.json'))) if os.path.exists(os.path.join(V, 'tools/hook_commits.json')) else []
registered = set(json.load(open(os.path.join(V, 'tools/registered.json'))))   # only checks the lead has validated on the clean tree
checks, na, served = [], [], []
for p in props:
    path = os.path.join(V, 'checklib', p + '.py')
    m = None
    if p in registered and os.path.exists(path):
        mod = importlib.import_module('checklib.' + p)
        m = getattr(mod, 'MANIFEST', None)
    if m:
        served.append(p)
        checks.append({
            'property_id': p,
            'quick_cmd': f'./check {p} --tier quick',
            'thorough_cmd': f'./check {p} --tier thorough',
            'evidence_file': f'/verif/evidence/{p}.json',
            'replay_cmd_template': f'./check {p} --replay {{path}}',
            'engine': 'lean4-proof+correspondence',
            'level_claimed': {'category': 'proof', 'text': m['level_text'], 'design_ref': m['design_ref']},
            'level_note': m['level_note'],
            'technique': m['technique'],
        })
    else:
        na.append({'property_id': p, 'reason': na_reasons.get(p, 'check not built yet (see DESIGN.md section 6 for the planned proof)')})
man = {
    'version': 1,
    'setup_cmd': 'python3 tools/setup.py',
    'hooks': {'guard': 'CHIBICC_VERIF',
              'enable': "make CFLAGS='-std=c11 -g -fno-common -Wall -Wno-switch -O0 -DCHIBICC_VERIF' on a scratch copy of /repo (done by ./check)",
              'baseline_off_cmd': 'cd /repo && make && make test',
              'source_commits': hooks_commits, 'add_only': True},
    'engines': [{'name': 'lean4-proof+correspondence', 'path': 'check', 'serves_properties': served,
                 'kind_free_text': 'Lean 4 theorems over a model of the code; the model is regenerated from /repo by a translator '
                                   '(tools/extract) and/or tied by differential correspondence (tools/harness + lean driver); '
                                   'on a break the check searches the implementation for a concrete failing input'}],
    'checks': checks,
    'notes': 'See DESIGN.md. known_findings.json lists genuine defects (fixed: entries record fix: commits in /repo).',
    'not_applicable': na,
}
json.dump(man, open(os.path.join(V, 'MANIFEST.json'), 'w'), indent=1)
print('checks:', served, 'not_applicable:', [x['property_id'] for x in na])
