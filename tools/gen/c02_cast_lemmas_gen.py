#!/usr/bin/env python3
"""writes lean/ChibiVerif/Lemmas/FpCastLemmas.lean: the per-(from,to) proof text of C02 was generated once with this script (uniform
proof scripts for 63 cells); the .lean file is what is checked, this script is kept only to regenerate it after a refactoring."""
ITYS = ['bool', 'i8', 'i16', 'i32', 'i64', 'u8', 'u16', 'u32', 'u64']
FTYS = ['f32', 'f64', 'f80']
def aty(t): return f'.int .{t}' if t in ITYS else f'.{t}'
def row(t):
    if t in ('i8', 'i16', 'i32', 'u8', 'u16'): return 'i32'
    if t == 'i64': return 'i64'
    if t == 'u32': return 'u32'
    return 'u64'
out = []
w = out.append
w('''/-
C02: from the machine effect of each cast-table cell (Lemmas/FpCellLemmas) to "the cell chosen for (from, to) implements the
C11 conversion" (`select_partial`).  The integer side is exact BitVec/Int arithmetic; the floating side is one application of
an `FpuSpec` contract.

`Holds t s x`: the value `x` of type `t` is where `gen_expr` leaves it: integers in %rax under the representation invariant
of codegen.c (`RInt`, the same as C01's `Represents`), a float in the low 32 bits of %xmm0, a double in %xmm0, a long
double in %st(0).
-/
import ChibiVerif.Lemmas.FpFlagLemmas

set_option linter.unusedSimpArgs false
set_option linter.unusedVariables false

namespace ChibiVerif.Fp
open ChibiVerif.Asm ChibiVerif.X86 ChibiVerif.Spec.Fpu ChibiVerif.FpCodegen ChibiVerif.Spec.FpC11
open ChibiVerif.Spec.IntSpec ChibiVerif.Gen.CommonType ChibiVerif.Gen.CastTable

/-- the chibicc type descriptor of each of the twelve arithmetic types -/
def descr : ATy → TyD
  | .int .bool => ty_bool | .int .i8 => ty_char | .int .i16 => ty_short | .int .i32 => ty_int | .int .i64 => ty_long
  | .int .u8 => ty_uchar | .int .u16 => ty_ushort | .int .u32 => ty_uint | .int .u64 => ty_ulong
  | .f32 => ty_float | .f64 => ty_double | .f80 => ty_ldouble

/-- the instructions `cast(from, to)` prints (generated table, or the `_Bool` sequence) -/
def castSeq (f t : ATy) : List Ins := instrsOf (FpCodegen.cast (descr f) (descr t))

/-- representation invariant of integers in %rax (comment above `load` in codegen.c) -/
def RInt (t : ITy) (r : BitVec 64) (v : Int) : Prop :=
  t.inRange v ∧
  match t with
  | .i64 | .u64 | .bool => (r.toNat : Int) = v % 18446744073709551616
  | _ => ((r.toNat % 4294967296 : Nat) : Int) = v % 4294967296

def Holds (t : ATy) (s : FState) (x : AVal) : Prop :=
  match t, x with
  | .int t, .int v => RInt t (s.x.get .rax) v
  | .f32, .f32 b => s.xmm0.setWidth 32 = b
  | .f64, .f64 b => s.xmm0 = b
  | .f80, .f80 b => ∃ rest, s.st = b :: rest
  | _, _ => False

/-- the x87 stack below the operand -/
def stBelow (t : ATy) (s : FState) : List (BitVec 80) := if t = .f80 then s.st.tail else s.st

/-- the regions of the known findings, and of the two branchy cells that are proved separately:
    unsigned long → floating at ≥ 2^63; floating → unsigned long with integral part ≥ 2^63 -/
def inKnownRegion (F : FpuSpec) (frm to : ATy) (x : AVal) : Bool :=
  match frm, to, x with
  | .int .u64, to, .int v => to.isFp && decide (9223372036854775808 ≤ v)
  | _, .int .u64, .f32 b => match (F.val32 b).trunc? with | some i => decide (9223372036854775808 ≤ i) | none => false
  | _, .int .u64, .f64 b => match (F.val64 b).trunc? with | some i => decide (9223372036854775808 ≤ i) | none => false
  | _, .int .u64, .f80 b => match (F.val80 b).trunc? with | some i => decide (9223372036854775808 ≤ i) | none => false
  | _, _, _ => false

macro "fp_ints" : tactic => `(tactic| (
  try simp only [BitVec.toInt_eq_toNat_cond, BitVec.toNat_setWidth, BitVec.toNat_signExtend, BitVec.msb_eq_decide,
             BitVec.toNat_add, BitVec.toNat_sub, BitVec.toNat_neg, BitVec.toNat_not, BitVec.toNat_ofNat, BitVec.toNat_ofInt,
             BitVec.toNat_eq, Int.bmod_def] at *
  try simp at *
  repeat' split
  all_goals (first | omega | (simp at * <;> omega) | (simp at *; done))))

macro "unfold_rint" : tactic => `(tactic|
  simp [RInt, ITy.inRange, ITy.min, ITy.max, ITy.signed, ITy.bits] at *)

theorem truncTo_fit (n : Nat) (v : Val) (i : Int) (h : v.trunc? = some i)
    (lo : -(2 ^ (n - 1) : Int) ≤ i) (hi : i < 2 ^ (n - 1)) : truncTo n v = BitVec.ofInt n i := by
  simp [truncTo, h, lo, hi]

theorem fpToInt_some (t : ITy) (ht : t ≠ .bool) (v : Val) (i : Int) (h : fpToInt t v = some i) :
    v.trunc? = some i ∧ t.inRange i := by
  cases t <;> simp [fpToInt] at h ht ⊢ <;>
    (cases hv : v.trunc? <;> simp [hv] at h <;> (obtain ⟨h1, h2⟩ := h; subst h2; exact ⟨rfl, h1⟩))

/-! ### integer sources: the signed reading the conversion instruction makes of the register is the C value -/
''')
for t in ('i8', 'i16', 'i32', 'u8', 'u16'):
    w(f'''theorem src32_{t} (r : BitVec 64) (v : Int) (h : RInt .{t} r v) : (r.setWidth 32).toInt = v := by
  unfold_rint; fp_ints
''')
w('''theorem src64_i64 (r : BitVec 64) (v : Int) (h : RInt .i64 r v) : r.toInt = v := by
  unfold_rint; fp_ints

theorem srcz_u32 (r : BitVec 64) (v : Int) (h : RInt .u32 r v) : ((r.setWidth 32).setWidth 64).toInt = v := by
  unfold_rint; fp_ints
''')
for t in ('u64', 'bool'):
    w(f'''theorem src64_{t} (r : BitVec 64) (v : Int) (h : RInt .{t} r v) (hv : v < 9223372036854775808) :
    r.toInt = v ∧ r.msb = false := by
  unfold_rint; constructor <;> fp_ints
''')
w('/-! ### integer targets: what the cell leaves in %rax represents the integral part -/\n')
SSE = {'i8': '(((BitVec.ofInt 32 i).setWidth 8).signExtend 32).setWidth 64',
       'i16': '(((BitVec.ofInt 32 i).setWidth 16).signExtend 32).setWidth 64',
       'i32': '(BitVec.ofInt 32 i).setWidth 64',
       'i64': 'BitVec.ofInt 64 i',
       'u8': '(((BitVec.ofInt 32 i).setWidth 8).setWidth 32).setWidth 64',
       'u16': '(((BitVec.ofInt 32 i).setWidth 16).setWidth 32).setWidth 64',
       'u32': 'BitVec.ofInt 64 i',
       'u64': 'BitVec.ofInt 64 i'}
X87 = {'i8': '(((BitVec.ofInt 16 i).setWidth 8).signExtend 32).setWidth 64',
       'u8': '(((BitVec.ofInt 16 i).setWidth 8).setWidth 32).setWidth 64',
       'i16': '((BitVec.ofInt 16 i).signExtend 32).setWidth 64',
       'u16': '(((BitVec.ofInt 32 i).setWidth 16).setWidth 32).setWidth 64',
       'i32': '(BitVec.ofInt 32 i).setWidth 64',
       'u32': '((BitVec.ofInt 64 i).setWidth 32).setWidth 64',
       'i64': 'BitVec.ofInt 64 i',
       'u64': 'BitVec.ofInt 64 i'}
for path, tab in (('sse', SSE), ('x87', X87)):
    for t, e in tab.items():
        w(f'''theorem tgt_{path}_{t} (i : Int) (h : ITy.{t}.inRange i) : RInt .{t} ({e}) i := by
  unfold_rint; fp_ints
''')
# widths of the hardware conversion per target and path
SSEW = {'i8': 32, 'i16': 32, 'i32': 32, 'u8': 32, 'u16': 32, 'i64': 64, 'u32': 64, 'u64': 64}
X87W = {'i8': 16, 'u8': 16, 'i16': 16, 'u16': 32, 'i32': 32, 'u32': 64, 'i64': 64, 'u64': 64}
w('''/-! ### one lemma per (from, to): the selected cell implements the conversion -/

theorem b2bv_rint (z : Bool) : RInt .bool (b2bv (!z)) (if z = true then 0 else 1) := by
  cases z <;> simp [RInt, ITy.inRange, ITy.min, ITy.max, ITy.signed, ITy.bits, b2bv]
''')
# int -> fp
for f in ITYS:
    r = row(f)
    for t in FTYS:
        name = f'sel_{f}_{t}'
        cell = f'{r}{t}'
        hyp = '(hv : v < 9223372036854775808)' if r == 'u64' else ''
        spec = {'f32': 'F.ofInt32 v', 'f64': 'F.ofInt64 v', 'f80': 'F.ofInt80 v'}[t]
        concl = {'f32': f"s'.xmm0.setWidth 32 = {spec} ∧ s'.st = s.st", 'f64': f"s'.xmm0 = {spec} ∧ s'.st = s.st",
                 'f80': f"s'.st = {spec} :: s.st"}[t]
        w(f'''theorem {name} (F : FpuSpec) (s : FState) (v : Int) (h : RInt .{f} (s.x.get .rax) v) {hyp} :
    ∃ s', run F (castSeq ({aty(f)}) ({aty(t)})) s = some s' ∧ {concl} ∧ s'.cw = s.cw ∧ s'.x.get .rsp = s.x.get .rsp := by''')
        if r == 'i32':
            src = f'src32_{f} _ _ h'
            inst = {'f32': 'cvtsi2ss32', 'f64': 'cvtsi2sd32', 'f80': 'fild32'}[t]
        elif r == 'i64':
            src = 'src64_i64 _ _ h'
            inst = {'f32': 'cvtsi2ss64', 'f64': 'cvtsi2sd64', 'f80': 'fild64'}[t]
        elif r == 'u32':
            src = 'srcz_u32 _ _ h'
            inst = {'f32': 'cvtsi2ss64', 'f64': 'cvtsi2sd64', 'f80': 'fild64'}[t]
        else:
            src = f'(src64_{f} _ _ h hv).1'
            inst = {'f32': 'cvtsi2ss64', 'f64': 'cvtsi2sd64', 'f80': 'fild64'}[t]
        if r == 'u64' and t in ('f64', 'f80'):
            eff = f'eff_{cell}_nonneg F s (src64_{f} _ _ h hv).2'
        else:
            eff = f'eff_{cell} F s'
        if t == 'f80':
            w(f'''  obtain ⟨s', hrun, hst, hcw, hrsp⟩ := {eff}
  refine ⟨s', hrun, ?_, hcw, hrsp⟩
  rw [hst, F.{inst}_spec, {src}]
''')
        else:
            w(f'''  obtain ⟨s', hrun, hx, hst, hcw, hrsp⟩ := {eff}
  refine ⟨s', hrun, ?_, hst, hcw, hrsp⟩
  rw [hx, F.{inst}_spec, {src}]
''')
# fp -> int (non-bool)
for f in FTYS:
    for t in ITYS:
        if t == 'bool':
            continue
        name = f'sel_{f}_{t}'
        cell = f'{f}{t}'
        val = {'f32': 'F.val32 b', 'f64': 'F.val64 b', 'f80': 'F.val80 b'}[f]
        hyp = '(hreg : i < 9223372036854775808)' if t == 'u64' else ''
        if f == 'f80':
            wd = X87W[t]
            w(f'''theorem {name} (F : FpuSpec) (s : FState) (b : BitVec 80) (rest : List (BitVec 80)) (hs : s.st = b :: rest) (i : Int)
    (htr : ({val}).trunc? = some i) (hin : ITy.{t}.inRange i) {hyp} :
    ∃ s', run F (castSeq .f80 ({aty(t)})) s = some s' ∧ RInt .{t} (s'.x.get .rax) i ∧ s'.st = rest ∧ s'.cw = s.cw ∧
      s'.x.get .rsp = s.x.get .rsp := by
  obtain ⟨s', hrun, hrax, hst, hcw, hrsp⟩ := eff_{cell} F s b rest hs
  refine ⟨s', hrun, ?_, hst, hcw, hrsp⟩
  have hb : -(2 ^ ({wd} - 1) : Int) ≤ i ∧ i < 2 ^ ({wd} - 1) := by
    simp [ITy.inRange, ITy.min, ITy.max, ITy.signed, ITy.bits] at hin; omega
  rw [hrax, F.fistp{wd}_rz _ _ (rc_cwOr s.cw), truncTo_fit {wd} _ i htr hb.1 hb.2]
  exact tgt_x87_{t} i hin
''')
        else:
            wd = SSEW[t]
            src = 's.xmm0.setWidth 32 = b' if f == 'f32' else 's.xmm0 = b'
            inst = {'f32': 'cvttss2si', 'f64': 'cvttsd2si'}[f] + str(wd)
            w(f'''theorem {name} (F : FpuSpec) (s : FState) (b : BitVec {32 if f == 'f32' else 64}) (hs : {src}) (i : Int)
    (htr : ({val}).trunc? = some i) (hin : ITy.{t}.inRange i) {hyp} :
    ∃ s', run F (castSeq .{f} ({aty(t)})) s = some s' ∧ RInt .{t} (s'.x.get .rax) i ∧ s'.st = s.st ∧ s'.cw = s.cw ∧
      s'.x.get .rsp = s.x.get .rsp := by
  obtain ⟨s', hrun, hrax, hst, hcw, hrsp⟩ := eff_{cell} F s
  refine ⟨s', hrun, ?_, hst, hcw, hrsp⟩
  have hb : -(2 ^ ({wd} - 1) : Int) ≤ i ∧ i < 2 ^ ({wd} - 1) := by
    simp [ITy.inRange, ITy.min, ITy.max, ITy.signed, ITy.bits] at hin; omega
  rw [hrax, hs, F.{inst}_spec, truncTo_fit {wd} _ i htr hb.1 hb.2]
  exact tgt_sse_{t} i hin
''')
w('end ChibiVerif.Fp\n')
open('/verif/lean/ChibiVerif/Lemmas/FpCastLemmas.lean', 'w').write('\n'.join(out))

# ---------------------------------------------------------------- part 2
out = [open('/verif/lean/ChibiVerif/Lemmas/FpCastLemmas.lean').read().replace('end ChibiVerif.Fp\n', '')]
w = out.append
w('''/-! ### floating → _Bool: `cmp_zero`, `setne %al`, `movzx %al, %eax` -/

theorem truth_cmp_zero (v : Val) (n : Bool) (e : Int) : truth (Val.cmp v (.fin n 0 e)) = !v.isZero := by
  have := Val.cmp_zero_eq v n e
  cases h : Val.cmp v (.fin n 0 e) <;> cases hz : v.isZero <;> simp_all [truth]

theorem truth_cmp_zero_left (v : Val) (n : Bool) (e : Int) : truth (Val.cmp (.fin n 0 e) v) = !v.isZero := by
  have := Val.cmp_zero_left_eq v n e
  cases h : Val.cmp (.fin n 0 e) v <;> cases hz : v.isZero <;> simp_all [truth]

theorem sel_f32_bool (F : FpuSpec) (s : FState) (b : BitVec 32) (hs : s.xmm0.setWidth 32 = b) :
    ∃ s', run F (castSeq .f32 (.int .bool)) s = some s' ∧
      RInt .bool (s'.x.get .rax) (if (F.val32 b).isZero = true then 0 else 1) ∧ s'.st = s.st ∧ s'.cw = s.cw ∧
      s'.x.get .rsp = s.x.get .rsp := by
  obtain ⟨x, xmm0, xmm1, st, cw⟩ := s
  simp only at hs
  have hseq : castSeq .f32 (.int .bool) = ⟨"xorps", [.r "%xmm1", .r "%xmm1"]⟩ :: ⟨"ucomiss", [.r "%xmm1", .r "%xmm0"]⟩ ::
      instrsOf (cmpZeroTail ++ [ins1 "setne" (.r "%al"), ins2 "movzx" (.r "%al") (.r "%eax")]) := rfl
  simp only [hseq, Fp.run]
  rw [runFrom_step F _ _ _ _ rfl rfl rfl, runFrom_step F _ _ _ _ rfl rfl rfl]
  obtain ⟨s', hrun, hrax, hst, hcw, hrsp⟩ :=
    truth_bool F (F.ucomiss (xmm0.setWidth 32) ((xmm1 ^^^ xmm1).setWidth 32)) ⟨x, xmm0, xmm1 ^^^ xmm1, st, cw⟩
  refine ⟨s', hrun, ?_, hst, hcw, hrsp⟩
  rw [hrax, hs, BitVec.xor_self, BitVec.setWidth_zero, F.ucomiss_spec, F.val32_zero, truth_cmp_zero]
  exact b2bv_rint _

theorem sel_f64_bool (F : FpuSpec) (s : FState) (b : BitVec 64) (hs : s.xmm0 = b) :
    ∃ s', run F (castSeq .f64 (.int .bool)) s = some s' ∧
      RInt .bool (s'.x.get .rax) (if (F.val64 b).isZero = true then 0 else 1) ∧ s'.st = s.st ∧ s'.cw = s.cw ∧
      s'.x.get .rsp = s.x.get .rsp := by
  obtain ⟨x, xmm0, xmm1, st, cw⟩ := s
  simp only at hs
  have hseq : castSeq .f64 (.int .bool) = ⟨"xorpd", [.r "%xmm1", .r "%xmm1"]⟩ :: ⟨"ucomisd", [.r "%xmm1", .r "%xmm0"]⟩ ::
      instrsOf (cmpZeroTail ++ [ins1 "setne" (.r "%al"), ins2 "movzx" (.r "%al") (.r "%eax")]) := rfl
  simp only [hseq, Fp.run]
  rw [runFrom_step F _ _ _ _ rfl rfl rfl, runFrom_step F _ _ _ _ rfl rfl rfl]
  obtain ⟨s', hrun, hrax, hst, hcw, hrsp⟩ :=
    truth_bool F (F.ucomisd xmm0 (xmm1 ^^^ xmm1)) ⟨x, xmm0, xmm1 ^^^ xmm1, st, cw⟩
  refine ⟨s', hrun, ?_, hst, hcw, hrsp⟩
  rw [hrax, hs, BitVec.xor_self, F.ucomisd_spec, F.val64_zero, truth_cmp_zero]
  exact b2bv_rint _

theorem sel_f80_bool (F : FpuSpec) (s : FState) (b : BitVec 80) (rest : List (BitVec 80)) (hs : s.st = b :: rest) :
    ∃ s', run F (castSeq .f80 (.int .bool)) s = some s' ∧
      RInt .bool (s'.x.get .rax) (if (F.val80 b).isZero = true then 0 else 1) ∧ s'.st = rest ∧ s'.cw = s.cw ∧
      s'.x.get .rsp = s.x.get .rsp := by
  obtain ⟨x, xmm0, xmm1, st, cw⟩ := s
  simp only at hs
  subst hs
  have hseq : castSeq .f80 (.int .bool) = ⟨"fldz", []⟩ :: ⟨"fucomip", []⟩ :: ⟨"fstp", [.r "%st(0)"]⟩ ::
      instrsOf (cmpZeroTail ++ [ins1 "setne" (.r "%al"), ins2 "movzx" (.r "%al") (.r "%eax")]) := rfl
  simp only [hseq, Fp.run]
  rw [runFrom_step F _ _ _ _ rfl rfl rfl, runFrom_step F _ _ _ _ rfl rfl rfl, runFrom_step F _ _ _ _ rfl rfl rfl]
  obtain ⟨s', hrun, hrax, hst, hcw, hrsp⟩ := truth_bool F (F.fcomi F.fldz b) ⟨x, xmm0, xmm1, rest, cw⟩
  refine ⟨s', hrun, ?_, hst, hcw, hrsp⟩
  rw [hrax, F.fcomi_spec, F.val80_fldz, truth_cmp_zero_left]
  exact b2bv_rint _

/-! ### the selection theorem -/

theorem run_nil (F : FpuSpec) (s : FState) : run F [] s = some s := rfl

/-- **the instruction list chosen for (from, to) implements the C11 conversion**, for every machine state and every FPU
    meeting the contract, outside the regions of `inKnownRegion` -/
theorem select_partial (F : FpuSpec) (frm to : ATy) (s : FState) (x y : AVal)
    (hfp : frm.isFp = true ∨ to.isFp = true) (hh : Holds frm s x) (hc : convert F s.cw to x = some y)
    (hreg : inKnownRegion F frm to x = false) :
    ∃ s', run F (castSeq frm to) s = some s' ∧ Holds to s' y ∧ s'.cw = s.cw ∧ stBelow to s' = stBelow frm s ∧
      s'.x.get .rsp = s.x.get .rsp := by
  cases frm with
  | int f =>
    cases x with
    | int v =>
      cases to with
      | int t => simp [ATy.isFp] at hfp
''')
def int_to_fp_branch(t, ind):
    pad = ' ' * ind
    lines = [f'{pad}| {t} =>', f'{pad}  simp only [ChibiVerif.Spec.FpC11.convert, Option.some.injEq] at hc; subst hc', f'{pad}  cases f with']
    for f in ITYS:
        r = row(f)
        if f == 'u64':
            extra = ' (by simpa [inKnownRegion, ATy.isFp] using hreg)'
        elif f == 'bool':
            extra = ' (by have := hh.1; simp [ITy.inRange, ITy.min, ITy.max, ITy.signed, ITy.bits] at this; omega)'
        else:
            extra = ''
        lines.append(f'{pad}  | {f} =>')
        if t == 'f80':
            lines.append(f"{pad}    obtain ⟨s', hrun, hst, hcw, hrsp⟩ := sel_{f}_{t} F s v hh{extra}")
            lines.append(f"{pad}    exact ⟨s', hrun, ⟨s.st, hst⟩, hcw, by simp [stBelow, hst], hrsp⟩")
        else:
            lines.append(f"{pad}    obtain ⟨s', hrun, hx, hst, hcw, hrsp⟩ := sel_{f}_{t} F s v hh{extra}")
            lines.append(f"{pad}    exact ⟨s', hrun, hx, hcw, by simp [stBelow, hst], hrsp⟩")
    return '\n'.join(lines)
for t in FTYS:
    w(int_to_fp_branch(t, 6))
w('''    | f32 b => exact absurd hh (by simp [Holds])
    | f64 b => exact absurd hh (by simp [Holds])
    | f80 b => exact absurd hh (by simp [Holds])''')
for f in FTYS:
    bits = {'f32': 32, 'f64': 64, 'f80': 80}[f]
    val = {'f32': 'F.val32 b', 'f64': 'F.val64 b', 'f80': 'F.val80 b'}[f]
    w(f'''  | {f} =>
    cases x with
    | int v => exact absurd hh (by simp [Holds])''')
    for g in FTYS:
        if g != f:
            w(f'    | {g} b => exact absurd hh (by simp [Holds])')
    w(f'    | {f} b =>')
    if f == 'f80':
        w('      obtain ⟨rest, hrest⟩ := hh')
    w('      cases to with')
    w('      | int t =>')
    w('        simp only [ChibiVerif.Spec.FpC11.convert, Option.map_eq_some_iff] at hc')
    w('        obtain ⟨i, hi, rfl⟩ := hc')
    w('        cases t with')
    for t in ITYS:
        w(f'        | {t} =>')
        src = 'b rest hrest' if f == 'f80' else 'b hh'
        stfix = ("by simp [stBelow, hst, hrest]" if f == 'f80' else "by simp [stBelow, hst]")
        if t == 'bool':
            w(f'''          simp only [fpToInt, Option.some.injEq] at hi; subst hi
          obtain ⟨s', hrun, hr, hst, hcw, hrsp⟩ := sel_{f}_bool F s {src}
          exact ⟨s', hrun, hr, hcw, {stfix}, hrsp⟩''')
        else:
            extra = ' (by simpa [inKnownRegion, htr] using hreg)' if t == 'u64' else ''
            w(f'''          obtain ⟨htr, hin⟩ := fpToInt_some _ (by decide) _ _ hi
          obtain ⟨s', hrun, hr, hst, hcw, hrsp⟩ := sel_{f}_{t} F s {src} i htr hin{extra}
          exact ⟨s', hrun, hr, hcw, {stfix}, hrsp⟩''')
    for t in FTYS:
        w(f'      | {t} =>')
        w('        simp only [ChibiVerif.Spec.FpC11.convert, Option.some.injEq] at hc; subst hc')
        if t == f:
            hold = {'f32': 'hh', 'f64': 'hh', 'f80': '⟨rest, hrest⟩'}[f]
            w(f"        exact ⟨s, run_nil F s, {hold}, rfl, rfl, rfl⟩")
        else:
            cell = f'{f}{t}'
            if f == 'f80':
                w(f"        obtain ⟨s', hrun, hx, hst, hcw, hrsp⟩ := eff_{cell} F s b rest hrest")
                w(f"        exact ⟨s', hrun, hx, hcw, by simp [stBelow, hst, hrest], hrsp⟩")
            elif t == 'f80':
                w(f"        obtain ⟨s', hrun, hst, hcw, hrsp⟩ := eff_{cell} F s")
                src = '(s.xmm0.setWidth 32)' if f == 'f32' else 's.xmm0'
                w(f"        refine ⟨s', hrun, ⟨s.st, ?_⟩, hcw, by simp [stBelow, hst], hrsp⟩")
                w(f"        rw [hst]; simp only [Holds] at hh; rw [hh]")
            else:
                w(f"        obtain ⟨s', hrun, hx, hst, hcw, hrsp⟩ := eff_{cell} F s")
                w(f"        refine ⟨s', hrun, ?_, hcw, by simp [stBelow, hst], hrsp⟩")
                w(f"        simp only [Holds] at hh ⊢; rw [hx, hh]")
w('\nend ChibiVerif.Fp\n')
open('/verif/lean/ChibiVerif/Lemmas/FpCastLemmas.lean', 'w').write('\n'.join(out))
