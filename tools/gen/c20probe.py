"""C20 search/oracle leg: programs that evaluate one expression/statement form of one result type
N = 1, 9 and 100000 times between probes of the machine stack pointer and of the x87 TOP field,
then compute a long double expression that needs all eight x87 registers (NaN if one leaked).

The probes live in a helper translation unit compiled by gcc (PROBE_C):
  probe_rsp()      the caller's %rsp at the call              (lea 8(%rsp), %rax; ret)
  probe_x87_top()  TOP of the x87 status word (fnstsw)        0 when the register stack is empty

Every case is a function `case_<k>(long n)` that prints
  case <k> n <n> rsp <bytes> x87 <regs> chk <16 hex bytes> val <value>
Expected on every implementation that has property C20: rsp 0 and x87 0 for every n, and the chk /
val columns equal to those of the same source compiled by gcc.

All forms have defined behaviour (operands are re-initialised in every iteration, divisors are
non-zero, shifts are 1..3, no signed overflow, no conversion of out-of-range floating values).
VLA/alloca forms are the explicit exception of C20 and are not generated here.
"""

PROBE_C = r'''
__asm__(".text\n.globl probe_rsp\n.type probe_rsp, @function\nprobe_rsp:\n  lea 8(%rsp), %rax\n  ret\n");
unsigned probe_x87_top(void) { unsigned short sw; __asm__ volatile("fnstsw %0" : "=m"(sw)); return (sw >> 11) & 7; }
'''

PRELUDE = r'''
#include <stdio.h>
#include <string.h>
#include <stdarg.h>
unsigned long probe_rsp(void);
unsigned probe_x87_top(void);
#ifndef __chibicc__
#define __builtin_atomic_exchange(p, v) __atomic_exchange_n(p, v, 5)
#define __builtin_compare_and_swap(p, o, n) __atomic_compare_exchange_n(p, o, n, 0, 5, 5)
#endif
typedef long *LP;
typedef struct {} S0;
typedef struct { char a; } S1;
typedef struct { int a; char b; } S8;
typedef struct { double x; float y; } S16F;
typedef struct { long a; double b; } S16M;
typedef struct { long a; long b; long c; } S24;
typedef struct { long double l; int i; } S32;
typedef struct { char c[7]; } S7;
typedef struct { char c[17]; } S17;
typedef struct { unsigned char c[19]; } S19;
typedef struct { int a[5]; } S20;
typedef struct { short h[11]; } S22;
typedef struct { char c[23]; } S23;
typedef struct { long a; long b; int c; char d; } S29;
typedef union { int i; double d; } U8;
typedef struct { int a : 5; unsigned b : 9; long c : 40; _Bool d : 1; } BF;
long sink_l; double sink_d; long double sink_ld;
static void put_ld(long double v) { unsigned char b[16]; memset(b, 0, 16); memcpy(b, &v, 10); for (int i = 0; i < 10; i++) printf("%02x", b[i]); }
/* eight operands right-nested: uses all eight x87 registers in chibicc's evaluation order */
static long double deep8(void) {
  volatile long double a = 1.5L, b = 2.25L, c = 0.5L, d = 3.0L, e = 4.0L, f = 0.125L, g = 7.0L, h = 9.0L;
  return a + (b * (c + (d * (e + (f * (g + h))))));
}
'''

# (C type, init a, init b, printf conversion of (long double) value)
TYPES = {
    'char': ("char", "7", "3"), 'schar': ("signed char", "-7", "3"), 'uchar': ("unsigned char", "200", "3"),
    'short': ("short", "-700", "3"), 'ushort': ("unsigned short", "60000", "7"),
    'int': ("int", "-70000", "3"), 'uint': ("unsigned", "4000000000u", "7"),
    'long': ("long", "-7000000000L", "3"), 'ulong': ("unsigned long", "7000000000UL", "7"),
    'bool': ("_Bool", "1", "0"),
    'float': ("float", "7.5f", "2.5f"), 'double': ("double", "-7.25", "2.5"), 'ldouble': ("long double", "7.125L", "2.5L"),
    'ptr': ("LP", "&parr[2]", "&parr[1]"),
}
INTS = ['char', 'schar', 'uchar', 'short', 'ushort', 'int', 'uint', 'long', 'ulong']
FLTS = ['float', 'double', 'ldouble']
STRUCTS = {'S0': '{}', 'S1': '{1}', 'S8': '{1, 2}', 'S16F': '{1.5, 2.5f}', 'S16M': '{3, 4.5}', 'S24': '{1, 2, 3}',
           'S32': '{1.25L, 7}', 'S7': '{{1, 2, 3, 4, 5, 6, 7}}', 'U8': '{5}',
           # memory-class aggregates (> 16 bytes) of every tail length modulo 8: pushed on the machine stack when passed by value
           'S17': '{{1, 2, 3}}', 'S19': '{{4, 5, 6}}', 'S20': '{{1, 2, 3, 4, 5}}', 'S22': '{{7, 8, 9}}', 'S23': '{{1, 2}}', 'S29': '{1, 2, 3, 4}'}


def helper_functions():
    out = []
    for k, (t, a, b) in TYPES.items():
        if k == 'ptr':
            continue
        out.append(f'{t} f_{k}({t} x, {t} y) {{ return x; }}')
        out.append(f'{t} many_{k}(int i1, double d1, {t} x, long i2, float d2, long double l1, int i3, int i4, int i5, int i6, '
                   f'{t} y, double d3, double d4, double d5, double d6, double d7, double d8, double d9, S24 s, long double l2) {{ return y; }}')
    for s in STRUCTS:
        out.append(f'{s} f_{s}({s} x, int k) {{ return x; }}')
    # lvalue-position forms: a pointer passed through a call, an index computed by a call
    out.append('static int idx1(int i) { return i; }')
    for k, (t, a, b) in TYPES.items():
        out.append(f'static {t} *pid_{k}({t} *p) {{ return p; }}')
    for s in STRUCTS:
        out.append(f'static {s} *pid_{s}({s} *p) {{ return p; }}')
    out.append('long v_sum(int n, ...) { va_list ap; va_start(ap, n); long s = 0; for (int i = 0; i < n; i++) s += va_arg(ap, long); va_end(ap); return s; }')
    out.append('double v_dsum(int n, ...) { va_list ap; va_start(ap, n); double s = 0; for (int i = 0; i < n; i++) s += va_arg(ap, double); va_end(ap); return s; }')
    out.append('long double v_ldsum(int n, ...) { va_list ap; va_start(ap, n); long double s = 0; for (int i = 0; i < n; i++) s += va_arg(ap, long double); va_end(ap); return s; }')
    out.append('static long parr[4] = {10, 20, 30, 40};')
    return '\n'.join(out)


def scalar_forms(k):
    """list of (name, statements evaluated once per iteration; `a`, `b`, `r` of the type are in scope)"""
    t, ia, ib = TYPES[k]
    is_int = k in INTS
    is_flt = k in FLTS
    F = []
    ex = lambda name, e: F.append((name, f'{e};'))
    ex('var', 'a')
    ex('neg', '-a') if k not in ('ptr', 'bool') else None
    ex('not', '!a')
    if is_int:
        ex('bitnot', '~a')
    if k != 'ptr':
        for op, nm in (('+', 'add'), ('-', 'sub'), ('*', 'mul'), ('/', 'div')):
            if k == 'bool' and op in '/':
                continue
            ex(nm, f'a {op} {"b" if op != "/" else "(b ? b : a)"}')
    if is_int:
        for op, nm in (('%', 'mod'), ('&', 'and'), ('|', 'or'), ('^', 'xor')):
            ex(nm, f'a {op} b')
        ex('shl', '(a & 15) << 2')
        ex('shr', 'a >> 3')
    for op, nm in (('==', 'eq'), ('!=', 'ne'), ('<', 'lt'), ('<=', 'le'), ('>', 'gt'), ('>=', 'ge')):
        ex(nm, f'a {op} b')
    ex('logand', 'a && b')
    ex('logor', 'a || b')
    # LITERAL operands on either side of every binary operator (code generators special-case operands that are constants: zero,
    # one, minus one, a power of two, the typed zero `0.0L`; each special path has its own stack / x87 discipline).  Defined
    # behaviour only: no division by a zero literal, no negative left operand of <<, shift counts below the width.
    if k == 'ptr':
        lits = [('z', '0')]
    elif is_flt:
        sfx = {'float': 'f', 'double': '', 'ldouble': 'L'}[k]
        lits = [('tz', '0.0' + sfx), ('tnz', '-0.0' + sfx), ('t1', '1.0' + sfx), ('t2', '2.0' + sfx), ('z', '0'), ('m1', '-1')]
    else:
        lits = [('z', '0'), ('one', '1'), ('p8', '8')] + ([('m1', '-1')] if k != 'bool' else [])
    for ln, lit in lits:
        zero = ln in ('z', 'tz', 'tnz')
        for op, nm in (('==', 'eq'), ('!=', 'ne'), ('<', 'lt'), ('<=', 'le'), ('>', 'gt'), ('>=', 'ge'), ('&&', 'logand'), ('||', 'logor')):
            if k == 'ptr' and op in ('<', '<=', '>', '>='):
                continue
            ex(f'lit_{nm}_{ln}_r', f'a {op} {lit}')
            ex(f'lit_{nm}_{ln}_l', f'{lit} {op} a')
        if k == 'ptr':
            continue
        for op, nm in (('+', 'add'), ('-', 'sub'), ('*', 'mul'), ('/', 'div')):
            if not (op == '/' and zero):
                ex(f'lit_{nm}_{ln}_r', f'a {op} {lit}')
            if not (op == '/' and k == 'bool'):
                ex(f'lit_{nm}_{ln}_l', f'{lit} {op} {"a" if op != "/" else "(a ? a : b)"}')
        if is_int:
            for op, nm in (('&', 'and'), ('|', 'or'), ('^', 'xor')):
                ex(f'lit_{nm}_{ln}_r', f'a {op} {lit}')
                ex(f'lit_{nm}_{ln}_l', f'{lit} {op} a')
            if not zero:
                ex(f'lit_mod_{ln}_r', f'a % {lit}')
            if k != 'bool':
                ex(f'lit_mod_{ln}_l', f'{lit} % a')
            if ln != 'm1':
                ex(f'lit_shl_{ln}_r', f'(a & 15) << {lit}')
                ex(f'lit_shl_{ln}_l', f'{lit} << (a & 7)')
                ex(f'lit_shr_{ln}_r', f'a >> {lit}')
            ex(f'lit_shr_{ln}_l', f'{lit} >> (a & 7)')
        ex(f'lit_cond_{ln}', f'a ? {lit} : b')
        ex(f'lit_opassign_{ln}', f'r = a, r += {lit}, r *= {lit}')
    ex('cond', 'a ? a : b')
    ex('cond2', 'b ? a : b')
    ex('comma', 'a, b')
    ex('comma3', '(a, b), a')
    ex('assign', 'r = a')
    ex('assign2', 'r = r2 = a')
    ex('castvoid', '(void)a')
    if k != 'ptr':
        ex('opassign', 'r = a, r += b')
        ex('opassign2', 'r = a, r -= b, r *= b')
        if k != 'bool':
            ex('preinc', 'r = a, ++r')
            ex('postdec', 'r = a, r--')
        ex('call', f'f_{k}(a, b)')
        ex('callmany', f'many_{k}(1, 2.0, a, 3, 4.0f, 5.0L, 6, 7, 8, 9, b, 1.0, 2.0, 3.0, 4.0, 5.0, 6.0, 7.0, s24, 8.0L)')
        ex('stmtexpr', f'({{ {t} z = a; z; }})')
        ex('stmtexpr_if', f'({{ {t} z = a; if (b) z = b; z; }})')
        ex('fnptr', f'(&f_{k})(a, b)')
        for k2 in ('char', 'uchar', 'short', 'int', 'uint', 'long', 'ulong', 'bool', 'float', 'double', 'ldouble'):
            src = 'a'
            if (is_flt and k2 in INTS + ['bool']) or (k2 in FLTS and k in ('uint', 'ulong')):
                src = 'b'           # small positive values only: every such conversion is defined and exact
            ex(f'cast_{k2}', f'({TYPES[k2][0]}){src}')
        # value-dependent conversion sequences (branches inside the cast strings: `test; js`, compare against 2^63, ...):
        # boundary operand values, all with defined behaviour (6.3.1.4: the truncated value is representable)
        if is_flt:
            sfx = {'float': 'f', 'double': '', 'ldouble': 'L'}[k]
            for nm, val, targets in (('p63', '9223372036854775808.0', ('ulong',)), ('p64m', '18000000000000000000.0', ('ulong',)),
                                     ('neghalf', '-0.75', ('ulong', 'long', 'uint', 'int', 'uchar', 'bool')),
                                     ('p32', '4294967040.0', ('ulong', 'long', 'uint')), ('p31', '2147483648.0', ('ulong', 'long', 'uint')),
                                     ('m63', '-9223372036854775808.0', ('long',))):
                for k2 in targets:
                    ex(f'castv_{k2}_{nm}', f'a = {val}{sfx}, ({TYPES[k2][0]})a')
        if k in ('ulong', 'long', 'uint', 'int'):
            vals = {'ulong': (('top', '0x8000000000000000UL'), ('max', '0xffffffffffffffffUL'), ('odd', '0x8000000000000401UL'), ('zero', '0UL')),
                    'long': (('min', '(-0x7fffffffffffffffL - 1)'), ('m1', '-1L')),
                    'uint': (('top', '0x80000000u'), ('max', '0xffffffffu')),
                    'int': (('min', '(-0x7fffffff - 1)'), ('m1', '-1'))}[k]
            for nm, val in vals:
                for k2 in FLTS:
                    ex(f'castv_{k2}_{nm}', f'a = {val}, ({TYPES[k2][0]})a')
        ex('addsub_nested', '(a + b) - (a - (b + (a - b)))') if k != 'bool' else None
        ex('cmp_nested', '(a < b) + (a + b > b) + ((a, b) == b)')
        ex('deref', '*pa')
        ex('index', 'arr[1]')
        ex('member', 'st.m')
        ex('member_assign', 'st.m = a')
        ex('ptr_member', 'pst->m = b')
        ex('sizeof', 'sizeof(a + b)')
    else:
        ex('ptradd', 'a + 1')
        ex('ptrsub', 'a - b')
        ex('deref', '*a')
        ex('index', 'a[1]')
        ex('addr', '&a[-1]')
    if k in ('int', 'long', 'uint', 'char', 'short', 'ulong'):
        ex('atomic_add', 'at = a, at += b')
        ex('atomic_inc', 'at = a, at++')
        ex('atomic_xchg', '__builtin_atomic_exchange(&at, b)')
        ex('atomic_cas', 'r = a, __builtin_compare_and_swap(&at, &r, b)')
    if k in ('int', 'long', 'uint'):
        ex('bf_read', 'bf.a + bf.b + bf.c + bf.d')
        ex('bf_write', 'bf.a = 3, bf.b = a, bf.c = b, bf.d = 1')
        ex('bf_opassign', 'bf.b += 3, bf.c++, --bf.a')
    if k == 'long':
        ex('vcall', 'v_sum(3, 1L, 2L, 3L)')
    if k == 'double':
        ex('vcall', 'v_dsum(9, 1.0, 2.0, 3.0, 4.0, 5.0, 6.0, 7.0, 8.0, 9.0)')
    if k == 'ldouble':
        ex('vcall', 'v_ldsum(3, 1.0L, 2.0L, 3.0L)')
    # side effects inside an LVALUE: the statement is an assignment / op-assignment / inc-dec of its own whose lvalue contains a
    # statement expression with an assignment statement, a comma expression with an assignment, a call, a conditional, or an
    # index that is an assignment expression (every lvalue designates arr[1], r2 or st.m; arr[1] is re-initialised each time)
    lvals = [('stmtexpr', 'arr[({ r2 = a; 1; })]'), ('comma', '*(r2 = a, &arr[1])'), ('call', f'*pid_{k}(&arr[idx1(1)])'),
             ('cond', '*(ji ? &r2 : &arr[1])'), ('idxassign', 'arr[ji = 1]'), ('member_stmtexpr', '({ r2 = a; pst; })->m'),
             ('stmtexpr_nested', 'arr[({ arr[({ r2 = b; 2; })] = a; 1; })]')]
    for ln, lv in lvals:
        F.append((f'lv_{ln}_assign', f'ji = 0; arr[1] = b; ({lv}) = a; r = arr[1];'))
        F.append((f'lv_{ln}_assign2', f'ji = 0; arr[1] = b; r = ({lv}) = a;'))
        if k not in ('ptr', 'bool'):
            F.append((f'lv_{ln}_opassign', f'ji = 0; arr[1] = b; ({lv}) += a; r = arr[1];'))
            F.append((f'lv_{ln}_opassign2', f'ji = 0; arr[1] = a; ({lv}) -= b; r = arr[1];'))
            F.append((f'lv_{ln}_preinc', f'ji = 0; arr[1] = b; ++({lv}); r = arr[1];'))
            F.append((f'lv_{ln}_postdec', f'ji = 0; arr[1] = b; ({lv})--; r = arr[1];'))
    # nested assignments in call arguments and in conditions
    if k != 'ptr':
        F.append(('asg_in_args', f'f_{k}(r = a, r2 = b);'))
        F.append(('asg_in_args_lv', f'arr[1] = f_{k}(r = a, arr[({{ r2 = b; 2; }})] = b);'))
    F.append(('asg_in_if', 'if ((r = a)) r2 = b; else r2 = a;'))
    F.append(('asg_in_while', '{ int j = 0; while ((r = b), j < 2) { r2 = a; j++; } }'))
    F.append(('asg_in_for', 'for (int j = 0; (r2 = a), j < 2; j++) r = b;'))
    F.append(('asg_in_cond', '(r = a) ? (r2 = b) : (r2 = a);'))
    F.append(('asg_in_logand', '(r = a) && (r2 = b);'))
    F.append(('asg_in_logor', '(r = b) || (r2 = a);'))
    F.append(('asg_in_not', '!(r = a);'))
    # discard sites
    if k != 'ptr':
        # a value is discarded WHILE another operand of the same type is live (for long double: on the x87 register stack): the
        # left operand of a comma, a (void) cast, an expression statement inside a statement expression and the increment of a
        # for loop, each inside the right operand of a binary operator / a comparison / a call argument list
        call = f'f_{k}(a, b)'
        F.append(('live_comma', f'r = a + ({call}, b);'))
        F.append(('live_comma_lhs', f'r = (b, a) + ({call}, a, b);'))
        F.append(('live_stmtexpr', f'r = a * ({{ {call}; b; }});'))
        F.append(('live_castvoid_cond', f'r = a - (b ? ((void){call}, b) : b);'))
        F.append(('live_cmp', f'r2 = a < ({call}, b); r = r2;'))
        F.append(('live_for_inc', f'r = a + ({{ {t} z = b; for (int j = 0; j < 2; j++, z) ; z; }});'))
        F.append(('live_for_inc_call', f'r = b + ({{ {t} z = a; for (int j = 0; j < 3; {call}, j++) z = b; z; }});'))
        F.append(('live_arg', f'r = f_{k}(a, ({call}, b)) + (a, b);'))
        F.append(('live_nested', f'r = a + (b + (({call}, a) + ((void)b, ({{ a; b; }}))));'))
    F.append(('for_inc', 'for (int j = 0; j < 2; j++, a) r = a;'))
    F.append(('for_inc_call', f'for (int j = 0; j < 2; {"f_" + k + "(a, b)" if k != "ptr" else "a + 1"}, j++) r = a;'))
    # statements
    F.append(('if', 'if (a) r = a; else r = b;'))
    F.append(('if_noelse', 'if (b) r = b;'))
    F.append(('while', '{ int j = 0; while (j < 3) { r = a; j++; } }'))
    F.append(('do', '{ int j = 0; do { r = b; j++; } while (j < 3); }'))
    F.append(('for_break', 'for (int j = 0; j < 5; j++) { if (j == 3) break; if (j == 1) continue; r = a; }'))
    F.append(('goto', '{ int j = 0; again: r = a; j++; if (j < 3) goto again; goto out; r = b; out: ; }'))
    F.append(('block_decl', f'{{ {t} z = a; {t} w = z; r = w; }}'))
    F.append(('return_in_call', f'r = {"f_" + k + "(a, b)" if k != "ptr" else "a"};'))
    if is_int and k != 'bool':
        F.append(('switch', 'switch (a & 7) { case 0: r = a; break; case 1 ... 3: r = b; break; case 5: r = a; default: r = b; }'))
    if k == 'long':
        F.append(('switch64', 'switch (a) { case -7000000000L: r = b; break; case 0x300000001: r = a; break; case 5 ... 0x200000000: r = b; break; }'))
        F.append(('computed_goto', '{ static void *tb[] = {&&l0, &&l1}; int j = 0; goto *tb[j]; l0: j = 1; goto *tb[j]; l1: r = a; }'))
    return [f for f in F if f is not None]


def struct_forms(s):
    F = []
    ex = lambda name, e: F.append((name, f'{e};'))
    ex('var', 'a')
    ex('assign', 'r = a')
    ex('assign2', 'r = r2 = a')
    ex('call', f'f_{s}(a, 1)')
    ex('call_member', f'f_{s}(a, 1), f_{s}(b, 2)')
    ex('cond', '(k ? a : b)')
    ex('comma', '(k, a)')
    if s != 'U8':      # `U8 z = a;` is miscompiled (a C05 matter: union copy-initialisation), not probed here
        ex('stmtexpr', f'({{ {s} z = a; z; }})')
        F.append(('block_decl', f'{{ {s} z = a; r = z; }}'))
    ex('assign_call', f'r = f_{s}(a, 1)')
    ex('castvoid', '(void)a')
    F.append(('for_inc', f'for (int j = 0; j < 2; j++, a) r = a;'))
    # side effects inside an LVALUE (see scalar_forms)
    lvals = [('stmtexpr', 'sarr[({ r2 = a; 1; })]'), ('comma', '*(r2 = a, &sarr[1])'), ('call', f'*pid_{s}(&sarr[idx1(1)])'),
             ('cond', '*(ji ? &r2 : &sarr[1])'), ('idxassign', 'sarr[ji = 1]'),
             ('stmtexpr_nested', 'sarr[({ sarr[({ r2 = b; 0; })] = a; 1; })]')]
    for ln, lv in lvals:
        F.append((f'lv_{ln}_assign', f'ji = 0; ({lv}) = a; r = sarr[1];'))
        F.append((f'lv_{ln}_assign2', f'ji = 0; r = ({lv}) = a;'))
    F.append(('asg_in_args', f'f_{s}(r = a, k = 1);'))
    F.append(('asg_in_cond', '(k ? (r = a) : (r2 = b));'))
    return F


def case_function(idx, kind, tkey, name, body):
    """one case; prints its own line"""
    if kind == 'scalar':
        t, ia, ib = TYPES[tkey]
        decls = (f'{t} a = {ia}, b = {ib}, r = {ia}, r2 = {ib}; {t} *pa = &a; {t} arr[3] = {{{ia}, {ib}, {ia}}}; '
                 f'struct {{ int pad; {t} m; }} st = {{1, {ia}}}, *pst = &st; S24 s24 = {{1, 2, 3}}; BF bf = {{1, 2, 3, 1}}; int ji = 0; ')
        if tkey in ('int', 'long', 'uint', 'char', 'short', 'ulong'):
            decls += f'_Atomic {t} at = {ia}; '
        reinit = f'a = {ia}; b = {ib}; '
        if tkey == 'ptr':
            val = 'printf(" val %ld", (long)(r - parr));'
        elif tkey in FLTS:
            val = 'printf(" val "); put_ld((long double)r);'
        else:
            val = 'printf(" val %ld", (long)r);'
    else:
        s = tkey
        decls = (f'{s} a = {STRUCTS[s]}, b = {STRUCTS[s]}, r = {STRUCTS[s]}, r2 = {STRUCTS[s]}; int k = 1; int ji = 0; '
                 f'{s} sarr[2] = {{{STRUCTS[s]}, {STRUCTS[s]}}}; ')
        reinit = 'k = !k; '
        val = 'printf(" val %d", (int)((unsigned char *)&r)[0]);' if s != 'S0' else 'printf(" val %d", (int)sizeof(r));'
    return (f'static void case_{idx}(long n) {{\n  {decls}\n'
            f'  unsigned long r0 = probe_rsp(); unsigned t0 = probe_x87_top();\n'
            f'  for (long i = 0; i < n; i++) {{ {reinit}{body} }}\n'
            f'  unsigned long r1 = probe_rsp(); unsigned t1 = probe_x87_top();\n'
            f'  printf("case {idx} {tkey}.{name} n %ld rsp %ld x87 %d chk ", n, (long)(r1 - r0), (int)((t0 - t1) & 7));\n'
            f'  put_ld(deep8()); {val} printf("\\n");\n}}\n')


def all_cases():
    cases = []
    for k in TYPES:
        for name, body in scalar_forms(k):
            cases.append(('scalar', k, name, body))
    for s in STRUCTS:
        for name, body in struct_forms(s):
            cases.append(('struct', s, name, body))
    return cases


def program(cases, counts=(1, 9, 100000)):
    """cases: list of (kind, type key, form name, body)"""
    src = PRELUDE + helper_functions() + '\n'
    for i, (kind, tkey, name, body) in enumerate(cases):
        src += case_function(i, kind, tkey, name, body)
    src += 'int main(void) {\n'
    for i in range(len(cases)):
        for n in counts:
            src += f'  case_{i}({n});\n'
    src += '  return 0;\n}\n'
    return src


# the witness of known finding C20-jump-out-of-stmt-expr
KNOWN_JUMP_OUT = ('scalar', 'long', 'KNOWN_continue_out_of_stmt_expr',
                  'r = a; for (int j = 0; j < 4; j++) { r += 1 + ({ if (j % 2) continue; 2; }); }')
