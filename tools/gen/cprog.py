"""Random C translation units for the assembly-text tie of the code-generation model.

The programs only have to *compile* with chibicc (they are never run): the tie compares the text
chibicc prints with the text the Lean model prints.  So the generator aims at coverage of
codegen.c, not at defined behaviour: every Node kind x result type (char/short/int/long, signed and
unsigned, _Bool, enum, float/double/long double, struct/union, pointers, bit-fields, _Atomic), calls
with many arguments of every class (register, stack, struct in GP/SSE/mixed/memory, long double),
variadics, VLAs/alloca, switch with case ranges and 64-bit constants, goto / computed goto,
statement expressions, static/TLS/common globals with initialisers and relocations.

gen_program(rng) -> (source text, flags)
"""

INT_TYPES = ['_Bool', 'char', 'signed char', 'unsigned char', 'short', 'unsigned short', 'int', 'unsigned',
             'long', 'unsigned long', 'enum E']
FLT_TYPES = ['float', 'double', 'long double']
ARITH = INT_TYPES + FLT_TYPES
STRUCTS = ['struct S1', 'struct S2', 'struct S3', 'struct S4', 'struct S6', 'struct S7', 'struct S8', 'struct S9',
           'union U1', 'union U2', 'struct SA', 'struct SB', 'struct S10', 'struct S11', 'struct S12']
PTRS = ['int *', 'char *', 'struct S1 *', 'void *', 'long *', 'double *']

PRELUDE = r'''
#include <stdarg.h>
enum E { EA = -1, EB, EC = 7 };
struct S1 { char a; int b; };
struct S2 { double x; double y; };
struct S3 { float x; int y; double z; };
struct S4 { long a; long b; long c; };
struct S5 { int a:3; unsigned b:5; long c:33; signed char d:2; _Bool e:1; unsigned long f:40; short g:9; };
struct S6 { float f; };
struct S7 { long double ld; int i; };
struct S8 { struct S1 in; short arr[3]; };
struct S9 { float a; float b; float c; };
union U1 { int i; float f; char c[7]; };
union U2 { double d; long l; };
struct S10 { char c[3]; };
struct S11 { char c[7]; };
struct __attribute__((packed)) S12 { double d; char c[3]; };
extern int ext_fn(int);
'''


def ident(t):
    return t.replace(' ', '_').replace('*', 'p')


class G:
    def __init__(self, rng):
        self.r = rng
        self.nlabel = 0
        self.out = []
        self.funcs = []      # (name, ret, [param types], variadic)
        self.in_loop = 0
        self.in_switch = 0
        self.in_se = 0       # inside a statement expression: no jumps out of / labels into it (known finding C20-jump-out-of-stmt-expr)
        self.labels = []
        self.locals_struct = {}

    # ------------------------------------------------------------ helpers
    def pick(self, xs):
        return xs[self.r.randrange(len(xs))]

    def chance(self, p):
        return self.r.random() < p

    def lit(self, t):
        r = self.r
        if t in FLT_TYPES:
            v = self.pick(['0.0', '1.5', '-2.25', '3.0e10', '1e-3', '0.1', '123456.789', '16777217.0', '-0.0'])
            return v + {'float': 'f', 'double': '', 'long double': 'L'}[t]
        if t == 'enum E':
            return self.pick(['EA', 'EB', 'EC'])
        v = self.pick([0, 1, 2, 3, 7, 100, 127, 128, 255, 256, 32767, 65535, 65536, 2147483647,
                       r.randrange(1000), r.randrange(1 << 31)])
        if t == '_Bool':
            return str(v & 1)
        if t in ('long', 'unsigned long') and self.chance(0.3):
            v = self.pick([4294967296, 0x100000001, 9223372036854775807, 1 << 40])
        s = str(v)
        if t == 'unsigned':
            s += 'u'
        elif t == 'long':
            s += 'L'
        elif t == 'unsigned long':
            s += 'UL'
        return s

    # ------------------------------------------------------------ lvalues
    def lvalue(self, t, d):
        """an lvalue of exactly type t (arith, pointer or struct)"""
        i = ident(t)
        opts = [f'v_{i}', f'g_{i}', f'a_{i}[{self.index(d)}]', f'(*q_{i})', f's_{i}']
        if t in ARITH and t != 'enum E':
            opts.append(f't_{i}')
        if t == 'int':
            opts += ['ls1.b', 'ps1->b', 'g_s1.b', 'ls8.in.b', 'lu1.i', 'ls3.y', 'ls7.i']
        if t == 'char':
            opts += ['ls1.a', 'lu1.c[2]', 'g_str[1]', 'v_struct_S10.c[1]', 'v_struct_S11.c[6]', 'v_struct_S12.c[2]']
        if t == 'short':
            opts += ['ls8.arr[1]']
        if t == 'float':
            opts += ['ls3.x', 'ls6.f', 'lu1.f', 'ls9.b']
        if t == 'double':
            opts += ['ls2.x', 'ls2.y', 'ls3.z', 'lu2.d']
        if t == 'long':
            opts += ['ls4.a', 'ls4.c', 'lu2.l', 'vla[1]']
        if t == 'long double':
            opts += ['ls7.ld']
        if t == 'struct S1':
            opts += ['ls8.in', '(*ps1)', 'as1[1]']
        if t in self.locals_struct:
            opts += self.locals_struct[t]
        return self.pick(opts)

    def bitfield(self):
        return self.pick(['bf.a', 'bf.b', 'bf.c', 'bf.d', 'bf.e', 'bf.f', 'bf.g', 'g_bf.b', 'pbf->c', 'lsa.x', 'lsa.y'])

    def index(self, d):
        if d <= 0 or self.chance(0.6):
            return str(self.r.randrange(3))
        return f'({self.expr("int", d - 1)}) & 1'

    # ------------------------------------------------------------ expressions
    def expr(self, t, d):
        if t in STRUCTS:
            return self.struct_expr(t, d)
        if t in PTRS:
            return self.ptr_expr(t, d)
        return self.arith_expr(t, d)

    def any_arith(self):
        return self.pick(ARITH)

    def cond(self, d):
        t = self.pick(ARITH + PTRS)
        return self.expr(t, d)

    def arith_expr(self, t, d):
        r = self.r
        if d <= 0:
            k = r.randrange(4)
            if k == 0:
                return self.lit(t)
            if k == 1 and t in INT_TYPES and t != 'enum E' and t != '_Bool':
                return f'({t}){self.bitfield()}'
            return self.lvalue(t, 0)
        k = r.randrange(30)
        is_int = t in INT_TYPES
        e = lambda: self.arith_expr(t, d - 1)
        if k == 0:
            return f'(- {e()})'
        if k == 1:
            return f'(!{self.cond(d - 1)})' if self.chance(0.5) else f'(+ {e()})'
        if k == 2 and is_int:
            return f'(~{e()})'
        if k in (3, 4, 5):
            ops = ['+', '-', '*', '/']
            if is_int:
                ops += ['%', '&', '|', '^', '<<', '>>']
            return f'({e()} {self.pick(ops)} {e()})'
        if k == 6:
            u = self.pick(ARITH + PTRS)
            return f'({self.expr(u, d - 1)} {self.pick(["==", "!=", "<", "<=", ">", ">="])} {self.expr(u, d - 1)})'
        if k == 7:
            return f'({self.cond(d - 1)} {self.pick(["&&", "||"])} {self.cond(d - 1)})'
        if k == 8:
            return f'({self.cond(d - 1)} ? {e()} : {e()})'
        if k == 9:
            u = self.pick(ARITH + STRUCTS + PTRS)
            return f'({self.expr(u, d - 1)}, {e()})'
        if k in (10, 11):
            u = self.pick(ARITH + (PTRS if is_int and t in ('long', 'unsigned long') else []))
            return f'(({t}){self.expr(u, d - 1)})'
        if k == 12:
            return f'({self.lvalue(t, d - 1)} = {e()})'
        if k == 13:
            ops = ['+=', '-=', '*=', '/=']
            if is_int:
                ops += ['%=', '&=', '|=', '^=', '<<=', '>>=']
            return f'({self.lvalue(t, d - 1)} {self.pick(ops)} {e()})'
        if k == 14 and t != '_Bool' and t != 'enum E':
            lv = self.lvalue(t, d - 1)
            return self.pick([f'(++{lv})', f'(--{lv})', f'({lv}++)', f'({lv}--)'])
        if k in (15, 16):
            return self.call(t, d - 1)
        if k == 17:
            n = self.fresh()
            self.in_se += 1
            st = self.stmt(d - 1)
            self.in_se -= 1
            return f'({{ {t} se_{n} = {e()}; {st} se_{n}; }})'
        if k == 18 and is_int and t != '_Bool' and t != 'enum E':
            bf = self.bitfield()
            return self.pick([f'(({t})({bf} = {e()}))', f'(({t})({bf} += {e()}))', f'(({t}){bf}++)', f'(({t})--{bf})'])
        if k == 19 and t in ('unsigned long', 'long', 'int'):
            u = self.pick(ARITH + STRUCTS)
            return self.pick([f'(({t})sizeof({self.expr(u, d - 1)}))', f'(({t})_Alignof({u}))', f'(({t})sizeof(vla))',
                              f'(({t})(p_int - a_int))', f'(({t})(&a_long[2] - p_long))'])
        if k == 20:
            # member of a struct rvalue: gen_addr on FUNCALL / COND / ASSIGN / COMMA
            srcs = {'int': [('struct S1', 'b'), ('struct S8', 'in.b'), ('struct S3', 'y'), ('struct S7', 'i'), ('union U1', 'i')],
                    'char': [('struct S1', 'a')], 'double': [('struct S2', 'y'), ('struct S3', 'z'), ('union U2', 'd')],
                    'float': [('struct S6', 'f'), ('struct S9', 'c'), ('struct S3', 'x')], 'long': [('struct S4', 'b'), ('union U2', 'l')],
                    'long double': [('struct S7', 'ld')]}
            if t in srcs:
                st, m = self.pick(srcs[t])
                return f'({self.struct_expr(st, d - 1, rvalue=True)}.{m})'
        if k == 21:
            p = {'int': 'int *', 'char': 'char *', 'long': 'long *', 'double': 'double *'}.get(t)
            if p:
                return self.pick([f'(*({self.ptr_expr(p, d - 1)}))', f'(({self.ptr_expr(p, d - 1)})[{self.index(d - 1)}])'])
        if k == 22 and t in ('int', 'long', 'char', 'short', 'unsigned', 'unsigned long', 'unsigned char', 'double', 'float', 'long double'):
            i = ident(t)
            return self.pick([f'(at_{i} += {e()})', f'(at_{i} = {e()})', f'(at_{i}++)', f'(--at_{i})', f'(at_{i} -= {e()})',
                              f'(({t})at_{i})', f'(at_{i} *= {e()})'] +
                             ([f'__builtin_atomic_exchange(&at_{i}, {e()})',
                               f'(({t})__builtin_compare_and_swap(&at_{i}, &v_{i}, {e()}))'] if is_int else []))
        if k == 23 and t == 'int':
            return self.pick([f'_Generic({self.expr(self.any_arith(), d - 1)}, int: 1, double: 2, default: 3)',
                              f'__builtin_types_compatible_p({self.any_arith()}, {self.any_arith()})',
                              f'__builtin_reg_class({self.pick(ARITH + STRUCTS + PTRS)})'])
        if k == 25 and t == 'int':
            return f'ext_fn({e()})'
        if k == 24 and t in ('int', 'long'):
            return f'va_sum({self.r.randrange(1, 4)}, {e()}, {self.expr("double", d - 1)}, {self.expr("long double", d - 1)}, {self.expr("struct S1", d - 1)}, {self.expr("struct S2", d - 1)})'
        return self.arith_expr(t, d - 1)

    def fresh(self):
        self.nlabel += 1
        return self.nlabel

    def ptr_expr(self, t, d):
        base = t[:-2]
        i = ident(t)
        if d <= 0 or self.chance(0.3):
            opts = [f'v_{i}', f'g_{i}']
            if base != 'void':
                opts += [f'&v_{ident(base)}', f'a_{ident(base)}', f'&a_{ident(base)}[1]', f'&g_{ident(base)}']
            if t == 'char *':
                opts += ['"lit"', 'g_str', '&ls1.a', 'lu1.c', '(char *)__func__']
            if t == 'int *':
                opts += ['&ls1.b', '&ps1->b', '(int[]){1, 2, 3}', '&t_int']
            if t == 'struct S1 *':
                opts += ['&ls8.in', '&(struct S1){1, 2}', 'as1']
            if t == 'void *':
                opts += ['(void *)&v_int', '(void *)fn0', '&&lab_end', '0']
            return self.pick(opts)
        k = self.r.randrange(8)
        e = lambda: self.ptr_expr(t, d - 1)
        if k == 0 and base != 'void':
            return f'({e()} {self.pick("+-")} {self.arith_expr(self.pick(["int", "long", "unsigned char"]), d - 1)})'
        if k == 1:
            return f'({self.cond(d - 1)} ? {e()} : {e()})'
        if k == 2:
            return f'({self.lvalue(t, d - 1)} = {e()})'
        if k == 3 and base != 'void':
            lv = self.lvalue(t, d - 1)
            return self.pick([f'(++{lv})', f'({lv}--)', f'({lv} += {self.arith_expr("int", d - 1)})'])
        if k == 4:
            return f'(({t}){self.ptr_expr(self.pick(PTRS), d - 1)})'
        if k == 5:
            return self.call(t, d - 1)
        if k == 6:
            return f'({self.expr(self.any_arith(), d - 1)}, {e()})'
        return e()

    def struct_expr(self, t, d, rvalue=False):
        if d <= 0 or (not rvalue and self.chance(0.35)):
            if rvalue:
                return self.call(t, 0)
            return self.lvalue(t, 0)
        k = self.r.randrange(6)
        if rvalue and k == 4:
            k = 0
        e = lambda: self.struct_expr(t, d - 1)
        if k == 0:
            return self.call(t, d - 1)
        if k == 1:
            return f'({self.cond(d - 1)} ? {e()} : {e()})'
        if k == 2:
            return f'({self.lvalue(t, d - 1)} = {e()})'
        if k == 3:
            return f'({self.expr(self.any_arith(), d - 1)}, {self.struct_expr(t, d - 1, rvalue)})'
        if k == 4:
            n = self.fresh()
            return f'({{ {t} st_{n} = {e()}; st_{n}; }})'
        return self.call(t, d - 1)

    def call(self, t, d):
        cands = [f for f in self.funcs if f[1] == t]
        if not cands:
            return self.lvalue(t, 0) if t not in ARITH else self.lit(t)
        name, ret, params, variadic = self.pick(cands)
        name = name.replace('static ', '')
        args = [self.expr(p, d) for p in params]
        if variadic:
            for _ in range(self.r.randrange(4)):
                args.append(self.expr(self.pick(['int', 'double', 'long', 'char *', 'float', 'long double', 'struct S1', 'struct S4']), d))
        callee = name
        if self.chance(0.1):
            callee = f'(*&{name})'
        elif self.chance(0.05):
            callee = f'({self.cond(0)} ? {name} : {name})'
        return f'{callee}({", ".join(args)})'

    # ------------------------------------------------------------ statements
    def stmt(self, d):
        r = self.r
        if d <= 0:
            return f'{self.expr(self.pick(ARITH + STRUCTS + PTRS), 1)};'
        k = r.randrange(22)
        if self.in_se and k in (6, 7, 8, 9, 10, 11):
            k = 21
        if k == 0:
            s = f'if ({self.cond(d - 1)}) {self.stmt(d - 1)}'
            if self.chance(0.5):
                s += f' else {self.stmt(d - 1)}'
            return s
        if k == 1:
            self.in_loop += 1
            init = self.pick(['', f'int i{self.fresh()} = 0', f'{self.expr("int", d - 1)}'])
            s = f'for ({init}; {self.pick(["", self.cond(d - 1)])}; {self.pick(["", self.expr(self.pick(ARITH + PTRS), d - 1)])}) {self.stmt(d - 1)}'
            self.in_loop -= 1
            return s
        if k == 2:
            self.in_loop += 1
            s = f'while ({self.cond(d - 1)}) {self.stmt(d - 1)}'
            self.in_loop -= 1
            return s
        if k == 3:
            self.in_loop += 1
            s = f'do {self.stmt(d - 1)} while ({self.cond(d - 1)});'
            self.in_loop -= 1
            return s
        if k == 4:
            t = self.pick(['int', 'long', 'char', 'unsigned', 'unsigned long', 'short', 'enum E', '_Bool', 'unsigned char'])
            self.in_switch += 1
            body = []
            used = set()
            for _ in range(r.randrange(1, 6)):
                lo = self.pick([0, 1, 2, 5, 10, 100, -1, -5, 255, 65536, 0x7fffffff, 0x80000000, 0x100000001, -0x80000000, -0x100000000, 1 << 40])
                if lo in used:
                    continue
                used.add(lo)
                if self.chance(0.3):
                    hi = lo + self.pick([1, 2, 10, 1000, 0x7fffffff, 0x100000000])
                    if any(lo <= u <= hi for u in used if u != lo):
                        continue
                    used.update(range(lo, min(hi, lo + 20) + 1))
                    used.add(hi)
                    body.append(f'case {lo} ... {hi}: {self.stmt(d - 1)}')
                else:
                    body.append(f'case {lo}: {self.stmt(d - 1)}')
                if self.chance(0.6):
                    body.append('break;')
            if self.chance(0.6):
                body.insert(r.randrange(len(body) + 1), f'default: {self.stmt(d - 1)}')
            self.in_switch -= 1
            return f'switch ({self.expr(t, d - 1)}) {{ {" ".join(body)} }}'
        if k == 5:
            return '{ ' + ' '.join(self.stmt(d - 1) for _ in range(r.randrange(4))) + ' }'
        if k == 6 and self.in_loop:
            return self.pick(['break;', 'continue;'])
        if k == 7 and self.in_switch and not self.in_loop:
            return 'break;'
        if k == 8:
            n = self.fresh()
            self.labels.append(f'lab{n}')
            return f'lab{n}: {self.stmt(d - 1)}'
        if k == 9:
            return f'goto {self.pick(self.labels + ["lab_end"])};'
        if k == 10:
            return f'goto *{self.ptr_expr("void *", d - 1)};'
        if k == 11:
            return f'return {self.expr(self.ret, d - 1)};'
        if k == 12:
            t = self.pick(ARITH + PTRS + STRUCTS)
            n = self.fresh()
            if t in STRUCTS:
                self.locals_struct.setdefault(t, [])
            return f'{{ {t} d{n} = {self.expr(t, d - 1)}; {self.stmt(d - 1)} }}'
        if k == 13:
            n = self.fresh()
            return (f'{{ int n{n} = {self.expr("int", d - 1)}; long w{n}[n{n} + 1]; w{n}[0] = sizeof(w{n}); '
                    f'char *al{n} = alloca({self.expr("int", d - 1)}); {self.stmt(d - 1)} w{n}[n{n}] = (long)al{n}; '
                    f'int m{n}[n{n} + 1][3]; m{n}[n{n}][2] = sizeof(m{n}[0]); }}')
        if k == 14:
            return self.pick(['{ asm("nop"); }', '{ asm volatile ("# x\\n\\tnop"); }', ';'])
        if k == 15:
            n = self.fresh()
            inits = [f'struct S1 x{n} = {{1, {self.expr("int", d - 1)}}};',
                     f'struct S8 x{n} = {{{{1, 2}}, {{3, [2] = {self.expr("short", d - 1)}}}}};',
                     f'int x{n}[4] = {{1, 2, {self.expr("int", d - 1)}}};',
                     f'char x{n}[] = "abc";', f'union U1 x{n} = {{.f = {self.expr("float", d - 1)}}};',
                     f'struct S5 x{n} = {{1, 2, {self.expr("long", d - 1)}, .g = 3}};',
                     f'struct S7 x{n} = {{{self.expr("long double", d - 1)}}};',
                     f'long double x{n}[2] = {{1.0L}};', f'struct S3 x{n} = {self.expr("struct S3", d - 1)};',
                     f'static int x{n} = 3; x{n}++;', f'static struct S1 x{n} = {{1, 2}}; x{n}.b++;',
                     f'_Alignas(32) char x{n}[5]; x{n}[0] = 1;', f'char x{n}[17]; x{n}[16] = 0;',
                     f'static char *x{n} = "str"; x{n}++;', f'static void *x{n}[] = {{&&lab_end, &&lab_end}}; goto *x{n}[{self.index(d - 1)}];',
                     f'static _Thread_local int x{n} = 2; x{n}++;', f'typeof(v_int) x{n} = 1; x{n}++;']
            if self.in_se:
                inits = [x for x in inits if 'goto' not in x]
            return '{ ' + self.pick(inits) + ' }'
        if k == 16:
            return f'(void){self.expr(self.pick(ARITH + STRUCTS + PTRS), d - 1)};'
        return f'{self.expr(self.pick(ARITH + STRUCTS + PTRS), d)};'

    # ------------------------------------------------------------ top level
    def locals_decl(self):
        ls = []
        for t in ARITH + PTRS + STRUCTS:
            i = ident(t)
            if t in STRUCTS:
                ls.append(f'{t} v_{i} = g_{i}; {t} a_{i}[3]; {t} *q_{i} = &v_{i}; static {t} s_{i};')
            elif t in PTRS:
                ls.append(f'{t} v_{i} = 0; {t} a_{i}[3]; {t} *q_{i} = &v_{i}; static {t} s_{i};')
            else:
                ls.append(f'{t} v_{i} = {self.lit(t)}; {t} a_{i}[3] = {{{self.lit(t)}}}; {t} *q_{i} = &v_{i}; static {t} s_{i} = {self.lit(t)};')
        ls.append('struct S1 ls1 = {1, 2}; struct S1 *ps1 = &ls1; struct S1 as1[2]; struct S2 ls2 = {1.0, 2.0}; struct S3 ls3; struct S4 ls4 = {1, 2, 3};')
        ls.append('struct S5 bf = {1, 2, 3}; struct S5 *pbf = &bf; struct S6 ls6; struct S7 ls7; struct S8 ls8; struct S9 ls9; union U1 lu1; union U2 lu2; struct SA lsa;')
        ls.append('int vn = 3; long vla[vn]; int *p_int = a_int; long *p_long = a_long;')
        for t in ['int', 'long', 'char', 'short', 'unsigned', 'unsigned long', 'unsigned char', 'double', 'float', 'long double']:
            ls.append(f'_Atomic {t} at_{ident(t)} = {self.lit(t)};')
        return '\n  '.join(ls)

    def random_struct(self, name):
        r = self.r
        mems = []
        for j in range(r.randrange(1, 6)):
            k = r.randrange(6)
            if k == 0:
                mems.append(f'{self.pick(["int", "unsigned", "long", "char", "short", "unsigned long", "_Bool"])} m{j} : {r.randrange(1, 8)};')
            elif k == 1:
                mems.append(f'{self.pick(["char", "short", "float", "int"])} m{j}[{r.randrange(1, 4)}];')
            elif k == 2:
                mems.append(f'{self.pick(["struct S1", "struct S6", "union U1", "struct S2"])} m{j};')
            else:
                mems.append(f'{self.pick(["char", "short", "int", "long", "float", "double", "float", "double", "int *"])} m{j};')
        return f'{name} {{ int x:4; unsigned y:9; {" ".join(mems)} }};' if name == 'struct SA' else f'{name} {{ {" ".join(mems)} }};'

    def globals_decl(self):
        gs = []
        for t in ARITH:
            i = ident(t)
            gs.append(f'{t} g_{i} = {self.lit(t)};')
            if t != 'enum E':
                gs.append(self.pick([f'_Thread_local {t} t_{i} = {self.lit(t)};', f'_Thread_local {t} t_{i};', f'static _Thread_local {t} t_{i};']))
        for t in PTRS:
            gs.append(f'{t} g_{ident(t)};')
        gs += ['struct S1 g_struct_S1 = {1, 2};', 'struct S2 g_struct_S2 = {1.5, 2.5};', 'struct S3 g_struct_S3 = {1.0f, 2, 3.0};',
               'struct S4 g_struct_S4;', 'struct S6 g_struct_S6 = {0.5f};', 'struct S7 g_struct_S7 = {1.5L, 3};',
               'struct S8 g_struct_S8 = {{1, 2}, {3, 4, 5}};', 'struct S9 g_struct_S9;', 'union U1 g_union_U1 = {7};',
               'union U2 g_union_U2 = {.l = 9};', 'struct SA g_struct_SA;', 'struct SB g_struct_SB;', 'struct S10 g_struct_S10 = {{1, 2, 3}};', 'struct S11 g_struct_S11;',
               'struct S12 g_struct_S12 = {1.0, {1}};', 'int (*g_extfn)(int) = ext_fn;',
               'struct S1 g_s1 = {3, 4};', 'struct S5 g_bf = {1, 2, 3, 1, 1, 5, 6};', 'char g_str[] = "hello\\n\\"w\\0x";',
               'int g_arr[5] = {1, 2, 3};', 'int *g_rel1 = &g_arr[2];', 'int *g_rel2 = g_arr + 4;', 'char *g_rel3 = "abc" + 1;',
               'char *g_rel4[] = {"x", "yy", g_str, g_str + 2};', 'long g_rel5 = (long)&g_arr[1];',
               'struct { char *p; int (*f)(void); int n; } g_rel6 = {g_str, fn0, 3};', 'static int s_priv = 4;', 'static long s_tent;',
               'int g_tent; int g_tent;', 'long g_common[10];', 'extern int ext_var;', 'extern struct S1 ext_s1;',
               '_Alignas(64) char g_aligned[3] = {1};', 'char g_big[40];', 'short g_wide[] = u"ab";', 'int g_wide32[] = U"c";',
               'const double g_cd = 2.5;', 'float g_farr[3] = {1.5f, 2.5f};', 'long double g_ldarr[2] = {1.0L, -2.0L};',
               'void *g_fp[] = {fn0, &g_arr, 0};', 'struct { int n; char tail[]; } g_flex = {1, {2, 3, 4}};',
               'struct S8 g_s8arr[2] = {{{1}}, {{2, 3}, {4}}};', '_Thread_local struct S1 g_tls_s1 = {5, 6};',
               'static inline int unused_inline(void) { return 1; }', 'static inline int used_inline(int x) { return x + 1; }',
               'static int s_fn(int x) { return used_inline(x); }', 'int (*g_fnp)(int) = s_fn;']
        return '\n'.join(gs)

    def signature(self, k):
        r = self.r
        ret = self.pick(ARITH + PTRS + STRUCTS + ['void'])
        n = self.pick([0, 1, 2, 3, 5, 8, 12, 16])
        pool = self.pick([ARITH + PTRS + STRUCTS, INT_TYPES + PTRS, FLT_TYPES, STRUCTS, ['double', 'float', 'long', 'struct S2', 'struct S3', 'long double']])
        params = [self.pick(pool) for _ in range(n)]
        variadic = n > 0 and self.chance(0.2)
        return (f'{"static " if self.chance(0.25) else ""}f{k}', ret, params, variadic)

    def function(self, f):
        name, ret, params, variadic = f
        self.ret = ret if ret != 'void' else 'int'
        self.labels = []
        ps = ', '.join(f'{t} p{j}' for j, t in enumerate(params)) or 'void'
        if variadic:
            ps += ', ...'
        body = [self.locals_decl()]
        if variadic:
            body.append('va_list ap; va_list ap2; va_start(ap, p0); va_copy(ap2, ap);')
            for _ in range(self.r.randrange(1, 4)):
                t = self.pick(['int', 'double', 'long', 'char *', 'long double', 'struct S1', 'struct S4', 'struct S2'])
                body.append(f'{{ {t} va{self.fresh()} = va_arg(ap, {t}); }}')
            body.append('va_end(ap);')
        for j, t in enumerate(params):
            if self.chance(0.5):
                if t in STRUCTS:
                    body.append(f'v_{ident(t)} = p{j};')
                else:
                    body.append(f'v_{ident(t)} = p{j}; p{j} = v_{ident(t)};')
        for _ in range(self.r.randrange(2, 7)):
            body.append(self.stmt(self.r.randrange(1, 4)))
        body.append('lab_end:')
        if ret == 'void':
            body.append('return;')
        else:
            body.append(f'return {self.expr(ret, 2)};')
        q = 'static ' if name.startswith('static ') else ''
        name = name.replace('static ', '')
        return f'{q}{ret} {name}({ps}) {{\n  ' + '\n  '.join(body) + '\n}\n'

    def program(self):
        nf = self.r.randrange(3, 8)
        self.funcs = [self.signature(k) for k in range(nf)]
        protos = []
        for name, ret, params, variadic in self.funcs:
            ps = ', '.join(params) or 'void'
            if variadic:
                ps += ', ...'
            q = 'static ' if name.startswith('static ') else ''
            protos.append(f'{q}{ret} {name.replace("static ", "")}({ps});')
        protos.append('int fn0(void);')
        protos.append('long va_sum(int n, ...);')
        protos.append('void *alloca(long);' if False else '')
        src = PRELUDE + self.random_struct('struct SA') + '\n' + self.random_struct('struct SB') + '\n' + '\n'.join(protos) + '\n' + self.globals_decl() + '\n'
        self.funcs.append(('fn0', 'int', [], False))
        for f in self.funcs[:-1]:
            src += self.function(f)
        src += 'int fn0(void) { return 0; }\n'
        src += ('long va_sum(int n, ...) { va_list ap; va_start(ap, n); long s = 0; for (int i = 0; i < n; i++) s += va_arg(ap, int);'
                ' double d = va_arg(ap, double); long double ld = va_arg(ap, long double); struct S1 a = va_arg(ap, struct S1);'
                ' struct S2 b = va_arg(ap, struct S2); va_end(ap); return s + (long)d + (long)ld + a.b + (long)b.y; }\n')
        src += f'int main(int argc, char **argv) {{ return fn0() + (int)va_sum(1, 2, 1.0, 2.0L, g_s1, g_struct_S2); }}\n'
        return src


def gen_program(rng):
    g = G(rng)
    src = g.program()
    flags = []
    k = rng.randrange(4)
    if k == 0:
        flags.append('-fPIC')
    if rng.randrange(3) == 0:
        flags.append(rng.choice(['-fcommon', '-fno-common']))
    return src, flags
