/* C04: runs the instruction sequences of the model (bit-field assignment + load, conversion to _Bool + store, the byte
   loop of a struct assignment) on the host CPU.  The sequences are assembled from the text `drv_c04 bfseq / boolseq /
   structseq` prints, one function per sequence, linked as seq_table[]; this file feeds them the same inputs
   `drv_c04 x86bf / x86bool / x86copy` gets and prints the same line format.

   line:  b <n> <buf hex, 24 bytes> <v hex>       bit-field:  unit at byte 8 of the buffer
          o <n> <buf hex, 24 bytes> <v hex>       _Bool store at byte 8
          c <n> <dstoff> <srcoff> <buf hex>       struct copy inside the buffer
          p <n> <dstoff+N> <srcoff> <buf hex>     push_struct with %rsp pointing into the buffer (function kind 2)
          r <n> <dstoff> <srcoff> <buf hex>       copy_struct_mem, hidden pointer at -8(%rbp) (function kind 3)  */
#include <stdio.h>
#include <stdlib.h>
#include <string.h>

typedef void (*seq_fn)(void *addr, unsigned long v, unsigned long *out);
extern seq_fn seq_table[];
extern long seq_count;

static int unhex(const char *h, unsigned char *b, int max) {
  int n = 0;
  while (h[0] && h[1] && n < max) {
    unsigned x;
    if (sscanf(h, "%2x", &x) != 1) return -1;
    b[n++] = x;
    h += 2;
  }
  return n;
}

int main(void) {
  static char line[8192], hex[4096];
  static unsigned char raw[2100];
  unsigned char *buf = raw + 1;          /* an odd address: nothing here may depend on alignment */
  while (fgets(line, sizeof line, stdin)) {
    char kind; long n; unsigned long v; long d, s;
    unsigned long out[3] = {0, 0, 0};
    if (line[0] == 'c' || line[0] == 'p' || line[0] == 'r') {
      if (sscanf(line, "%c %ld %ld %ld %4000s", &kind, &n, &d, &s, hex) != 5 || n < 0 || n >= seq_count) { puts("bad"); continue; }
      int len = unhex(hex, buf, 2048);
      seq_table[n](buf + d, (unsigned long)(buf + s), out);
      printf("buf=");
      for (int i = 0; i < len; i++) printf("%02x", buf[i]);
      if (kind == 'r') printf(" rax=%ld\n", (long)(out[0] - (unsigned long)buf));
      else if (kind == 'p') printf(" rax=%ld rsp=%ld\n", (long)(out[0] - (unsigned long)buf), (long)(out[2] - (unsigned long)(buf + d)));
      else printf(" rax=%ld rsp=%ld\n", (long)(out[0] - (unsigned long)buf), (long)out[2]);
      continue;
    }
    if (sscanf(line, "%c %ld %4000s %lx", &kind, &n, hex, &v) != 4 || n < 0 || n >= seq_count) { puts("bad"); continue; }
    int len = unhex(hex, buf, 2048);
    seq_table[n](buf + 8, v, out);
    if (kind == 'b') printf("assign=%lx load=%lx buf=", out[0], out[1]);
    else printf("rax=%lx buf=", out[0]);
    for (int i = 0; i < len; i++) printf("%02x", buf[i]);
    printf(" rsp=%ld\n", (long)out[2]);
  }
  return 0;
}
