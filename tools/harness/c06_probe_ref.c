/* C06 probes - reference side, always compiled by gcc (-O1 -fno-omit-frame-pointer).
   Prints one line per probe:  <name> ok | <name> FAIL <detail>
     align        every call made by the code under test reaches its callee with rsp = 8 (mod 16)
                  (frame address 0 mod 16; movaps on a local works)
     callee-saved rbx, rbp, r12-r15, rsp have their values after a call into the code under test
     sret-rax     a function returning a large struct returns the hidden pointer in rax (psABI 3.2.3)
     values       the functions computed what the reference computes (the probe itself is valid) */
#include <stdio.h>
#include <stdint.h>
#include <string.h>

struct Big { long a, b, c; };
struct Pair { long a; double d; };
typedef struct { float x, y, z; } F3;

struct Big impl_big(long x);
struct Big impl_big_fwd(long x);
F3 impl_f3(float a);
long impl_work(long n, int *arr, double d, struct Pair p);
long impl_depths(long x);
long impl_alloca(long n);

static int misaligned, leaf_calls;

static void probe_frame(void *frame) {
  leaf_calls++;
  if ((uintptr_t)frame % 16 != 0) { misaligned++; return; }
  /* an aligned 16-byte store relative to the frame: faults if the compiler's assumption were wrong */
  float v[4] __attribute__((aligned(16)));
  __asm__ volatile("xorps %%xmm7, %%xmm7\n\tmovaps %%xmm7, %0" : "=m"(v) : : "xmm7");
}

long ref_leaf(long x) { probe_frame(__builtin_frame_address(0)); return x * 2 + 1; }
long ref_leaf7(long a, long b, long c, long d, long e, long f, long g) {
  probe_frame(__builtin_frame_address(0));
  return a + 2 * b + 3 * c + 4 * d + 5 * e + 6 * f + 7 * g;
}
double ref_leafd(double x, long double y) { probe_frame(__builtin_frame_address(0)); return x + (double)y; }
long ref_leafs(struct Big b, long x) { probe_frame(__builtin_frame_address(0)); return b.a + 2 * b.b + 3 * b.c + x; }

/* call_preserving(fn, a1..a5): calls fn(a1..a5) (vector registers pass through) with known values in
   rbx, rbp, r12-r15; afterwards cp_mask has one bit per register that changed (rsp: bit 6). */
unsigned long cp_mask;
long call_preserving();
__asm__(
  ".text\n"
  ".globl call_preserving\n"
  ".type call_preserving, @function\n"
  "call_preserving:\n"
  "  push %rbx\n  push %rbp\n  push %r12\n  push %r13\n  push %r14\n  push %r15\n"
  "  sub $24, %rsp\n"
  "  mov %rdi, %rax\n"
  "  mov %rsi, %rdi\n  mov %rdx, %rsi\n  mov %rcx, %rdx\n  mov %r8, %rcx\n  mov %r9, %r8\n"
  "  movabs $0x1111111111111111, %rbx\n"
  "  movabs $0x2222222222222222, %rbp\n"
  "  movabs $0x3333333333333333, %r12\n"
  "  movabs $0x4444444444444444, %r13\n"
  "  movabs $0x5555555555555555, %r14\n"
  "  movabs $0x6666666666666666, %r15\n"
  "  mov %rsp, 8(%rsp)\n"
  "  call *%rax\n"
  "  xor %ecx, %ecx\n"
  "  movabs $0x1111111111111111, %rdx\n  cmp %rdx, %rbx\n  je 1f\n  or $1, %rcx\n1:\n"
  "  movabs $0x2222222222222222, %rdx\n  cmp %rdx, %rbp\n  je 1f\n  or $2, %rcx\n1:\n"
  "  movabs $0x3333333333333333, %rdx\n  cmp %rdx, %r12\n  je 1f\n  or $4, %rcx\n1:\n"
  "  movabs $0x4444444444444444, %rdx\n  cmp %rdx, %r13\n  je 1f\n  or $8, %rcx\n1:\n"
  "  movabs $0x5555555555555555, %rdx\n  cmp %rdx, %r14\n  je 1f\n  or $16, %rcx\n1:\n"
  "  movabs $0x6666666666666666, %rdx\n  cmp %rdx, %r15\n  je 1f\n  or $32, %rcx\n1:\n"
  "  cmp 8(%rsp), %rsp\n  je 1f\n  or $64, %rcx\n  mov 8(%rsp), %rsp\n1:\n"
  "  or %rcx, cp_mask(%rip)\n"
  "  add $24, %rsp\n"
  "  pop %r15\n  pop %r14\n  pop %r13\n  pop %r12\n  pop %rbp\n  pop %rbx\n"
  "  ret\n"
  ".size call_preserving, .-call_preserving\n");

/* reference results (the same functions in C, computed here) */
static long work_ref(long n, int *arr, double d, struct Pair p) {
  long acc = 0;
  struct Big bb = { n, n + 1, n + 2 };
  for (int i = 0; i < n; i++) {
    acc += arr[i] * (i + 1) - (arr[i] >> 1) + (long)(d * i) + ((acc % 7) * 2 + 1);
    acc ^= p.a + (long)p.d;
    switch (i & 3) {
    case 0: acc += 1 + 4 + 9 + 16 + 25 + 36 + 7 * (acc & 15); break;
    case 1: acc -= (long)(d + 2.5); break;
    case 2: acc += bb.a + 2 * bb.b + 3 * bb.c + i; break;
    default: acc = acc * 3 / 2; break;
    }
    acc = (unsigned long)acc % 1000003;
  }
  acc += n % 40;
  return acc;
}

int main(void) {
  int arr[64];
  for (int i = 0; i < 64; i++) arr[i] = i * 37 % 101 - 50;
  struct Pair p = { 12345, 6.75 };
  int bad_values = 0;
  char detail[200] = "";

  /* values + alignment through ordinary calls */
  long w = impl_work(50, arr, 1.25, p);
  if (w != work_ref(50, arr, 1.25, p)) { bad_values++; strcat(detail, " impl_work"); }
  long x = 5;
  long dref;
  {
    long r = 0, l = x * 2 + 1, l7 = x + 4 + 9 + 16 + 25 + 36 + 49;
    r += l; r += x + l; r += x + (x * (l + 1)); r += x + (x * (x - (l + 1)));
    r += l7; r += x + l7;
    r += x + (x * (x + 4 + 9 + 16 + 25 + 36 + 7 * (1 + 4 + 9 + 16 + 25 + 36 + 7 * l)));
    r += 4; r += x + 4; r += x + (x * (long)((double)l7 + 2.5));
    long ls = 1 + 4 + 9 + x;
    r += ls; r += x + (14 + ls); r += x + (x * ((14 + 1) + 4 + 9 + 16 + 25 + 36 + 7 * (14 + 7)));
    dref = r;
  }
  if (impl_depths(x) != dref) { bad_values++; strcat(detail, " impl_depths"); }
  if (impl_alloca(100) != (201 + 201 + 1 + 100 + 1 + 4 + 9 + 16 + 25 + 36 + 14)) { bad_values++; strcat(detail, " impl_alloca"); }
  struct Big b = impl_big_fwd(7);
  if (b.a != 17 || b.b != 18 || b.c != 19) { bad_values++; strcat(detail, " impl_big_fwd"); }
  F3 f = impl_f3(1.5f);
  if (f.x != 1.5f || f.y != 2.5f || f.z != 3.5f) { bad_values++; strcat(detail, " impl_f3"); }

  /* callee-saved registers: the same functions through the trampoline */
  cp_mask = 0;
  long w2 = ((long (*)(void *, long, int *, double, struct Pair))call_preserving)((void *)impl_work, 50, arr, 1.25, p);
  long d2 = ((long (*)(void *, long))call_preserving)((void *)impl_depths, x);
  long a2 = ((long (*)(void *, long))call_preserving)((void *)impl_alloca, 100);
  if (w2 != w || d2 != dref || a2 != impl_alloca(100)) { bad_values++; strcat(detail, " via-trampoline"); }
  unsigned long mask = cp_mask;

  /* hidden return pointer comes back in rax */
  struct Big buf;
  void *ret = ((void *(*)(void *, struct Big *, long))call_preserving)((void *)impl_big, &buf, 40);
  int sret_ok = ret == (void *)&buf && buf.a == 40 && buf.c == 42;
  void *ret2 = ((void *(*)(void *, struct Big *, long))call_preserving)((void *)impl_big_fwd, &buf, 40);
  int sret2_ok = ret2 == (void *)&buf && buf.a == 50 && buf.c == 52;

  printf(bad_values ? "values FAIL%s\n" : "values ok%s\n", detail);
  if (misaligned) printf("align FAIL %d of %d calls reached the callee with a misaligned stack\n", misaligned, leaf_calls);
  else printf("align ok %d calls\n", leaf_calls);
  if (mask | cp_mask) printf("callee-saved FAIL mask=%#lx (1 rbx, 2 rbp, 4 r12, 8 r13, 16 r14, 32 r15, 64 rsp)\n", mask | cp_mask);
  else printf("callee-saved ok\n");
  if (sret_ok && sret2_ok) printf("sret-rax ok\n");
  else printf("sret-rax FAIL rax=%s the buffer address after impl_big, %s after impl_big_fwd\n",
              ret == (void *)&buf ? "is" : "is not", ret2 == (void *)&buf ? "is" : "is not");
  return 0;
}
