// In-process harness for C17: #includes the snapshot's hashmap.c (so static
// functions and the bucket array are visible), executes an op file from stdin and
// prints after every operation the return value and the table state in the same
// canonical form as `driver hashmap` (lean/ChibiVerif/Driver/HashMapCmd.lean).
//
// build: gcc -O1 -g -fsanitize=address,undefined -fno-sanitize-recover=all \
//            -I<snapshot> hashmap_harness.c -o hashmap_harness
#include "hashmap.c"
#include <signal.h>

char *format(char *fmt, ...) {
  char *buf; size_t len;
  FILE *out = open_memstream(&buf, &len);
  va_list ap; va_start(ap, fmt); vfprintf(out, fmt, ap); va_end(ap);
  fclose(out);
  return buf;
}

// unreachable() expands to error("internal error at ...")
void error(char *fmt, ...) {
  printf("crash unreachable\n");
  fflush(stdout);
  _exit(0);
}

// glibc's assert() calls this; classify by the asserted expression
void __assert_fail(const char *expr, const char *file, unsigned int line, const char *func) {
  if (strstr(expr, "used"))
    printf("crash assert-used\n");
  else if (strstr(expr, "cap"))
    printf("crash assert-cap\n");
  else
    printf("crash assert %s\n", expr);
  fflush(stdout);
  _exit(0);
}

static void on_fpe(int sig) {
  static const char msg[] = "crash assert-cap\n";   // division by a zero capacity
  write(1, msg, sizeof(msg) - 1);
  _exit(0);
}

static void show_state(HashMap *map) {
  printf("used=%d cap=%d", map->used, map->capacity);
  if (map->capacity <= 64) {
    printf(" [");
    for (int i = 0; i < map->capacity; i++) {
      HashEntry *e = &map->buckets[i];
      if (i) printf(" ");
      if (!e->key) printf("E");
      else if (e->key == TOMBSTONE) printf("T");
      else printf("%.*s=%zu", e->keylen, e->key, (size_t)e->val);
    }
    printf("]");
  } else {
    int live = 0, tombs = 0;
    for (int i = 0; i < map->capacity; i++) {
      HashEntry *e = &map->buckets[i];
      if (e->key == TOMBSTONE) tombs++;
      else if (e->key) live++;
    }
    printf(" live=%d tombs=%d", live, tombs);
  }
  printf("\n");
}

int main(void) {
  signal(SIGFPE, on_fpe);
  HashMap *map = calloc(1, sizeof(HashMap));
  char line[4096];
  while (fgets(line, sizeof line, stdin)) {
    char op[16], key[2048]; unsigned long val;
    int n = sscanf(line, "%15s %2047s %lu", op, key, &val);
    if (n <= 0) continue;
    if (!strcmp(op, "put") && n == 3) {
      hashmap_put(map, strdup(key), (void *)(size_t)val);
      printf("put "); show_state(map);
    } else if (!strcmp(op, "del") && n == 2) {
      hashmap_delete(map, key);
      printf("del "); show_state(map);
    } else if (!strcmp(op, "get") && n == 2) {
      void *v = hashmap_get(map, key);
      if (v) printf("get %zu\n", (size_t)v); else printf("get NULL\n");
    } else if (!strcmp(op, "reset") && n == 1) {
      map = calloc(1, sizeof(HashMap));
      printf("reset\n");
    } else {
      printf("bad-op\n");
    }
  }
  return 0;
}
