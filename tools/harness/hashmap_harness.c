// In-process harness for C17: #includes the snapshot's hashmap.c (so static
// functions and the bucket array are visible), executes an op file from stdin and
// prints after every operation the return value and the table state in the same
// canonical form as `driver hashmap` (lean/ChibiVerif/Driver/HashMapCmd.lean).
//
// build: gcc -O1 -g -fsanitize=address,undefined -fno-sanitize-recover=all \
//            -I<snapshot> hashmap_harness.c -o hashmap_harness
#include "hashmap.c"
#include <signal.h>

char *format(char *fmt, ...) {
  char *buf; size_t len;
  FILE *out = open_memstream(&buf, &len);
  va_list ap; va_start(ap, fmt); vfprintf(out, fmt, ap); va_end(ap);
  fclose(out);
  return buf;
}

// unreachable() expands to error("internal error at ...")
void error(char *fmt, ...) {
  printf("crash unreachable\n");
  fflush(stdout);
  _exit(0);
}

// glibc's assert() calls this; classify by the asserted expression
void __assert_fail(const char *expr, const char *file, unsigned int line, const char *func) {
  if (strstr(expr, "used"))
    printf("crash assert-used\n");
  else if (strstr(expr, "cap"))
    printf("crash assert-cap\n");
  else
    printf("crash assert %s\n", expr);
  fflush(stdout);
  _exit(0);
}

static void on_fpe(int sig) {
  static const char msg[] = "crash assert-cap\n";   // division by a zero capacity
  write(1, msg, sizeof(msg) - 1);
  _exit(0);
}

static void show_state(HashMap *map) {
  printf("used=%d cap=%d", map->used, map->capacity);
  if (map->capacity <= 64) {
    printf(" [");
    for (int i = 0; i < map->capacity; i++) {
      HashEntry *e = &map->buckets[i];
      if (i) printf(" ");
      if (!e->key) printf("E");
      else if (e->key == TOMBSTONE) printf("T");
      else printf("%.*s=%zu", e->keylen, e->key, (size_t)e->val);
    }
    printf("]");
  } else {
    int live = 0, tombs = 0;
    for (int i = 0; i < map->capacity; i++) {
      HashEntry *e = &map->buckets[i];
      if (e->key == TOMBSTONE) tombs++;
      else if (e->key) live++;
    }
    printf(" live=%d tombs=%d", live, tombs);
  }
  printf("\n");
}

// ---- byte-string keys through the clients' conventions (drv_c17 hashmapx) ----
// kput <conv> <hexobj> <len> <val> | kdel <conv> <hexobj> <len> | kget <conv> <hexobj> <len> | hash <hex>
// <hexobj>: the bytes of the object from the key pointer to its end ("-" = none).  The object is
// malloc'ed with exactly that size, so that ASan reports any read past its end.
//   span: hashmap_*2(map, obj, len)              -- (tok->loc, tok->len)
//   dup : hashmap_*(map, strndup(obj, len))      -- get_ident(tok) / strndup(tok->loc, tok->len)
//   cstr: hashmap_*(map, obj)                    -- an existing NUL-terminated string
static void show_hex(char *p, int n) {
  if (n == 0) printf("-");
  for (int i = 0; i < n; i++) printf("%02x", (unsigned char)p[i]);
}

static void show_state_hex(HashMap *map) {
  printf("used=%d cap=%d", map->used, map->capacity);
  if (map->capacity <= 64) {
    printf(" [");
    for (int i = 0; i < map->capacity; i++) {
      HashEntry *e = &map->buckets[i];
      if (i) printf(" ");
      if (!e->key) printf("E");
      else if (e->key == TOMBSTONE) printf("T");
      else { show_hex(e->key, e->keylen); printf("=%zu", (size_t)e->val); }
    }
    printf("]");
  } else {
    int live = 0, tombs = 0;
    for (int i = 0; i < map->capacity; i++) {
      HashEntry *e = &map->buckets[i];
      if (e->key == TOMBSTONE) tombs++;
      else if (e->key) live++;
    }
    printf(" live=%d tombs=%d", live, tombs);
  }
  printf("\n");
}

static char *unhex(char *h, int *n) {
  if (!strcmp(h, "-")) { *n = 0; return malloc(0); }
  int len = strlen(h) / 2;
  char *p = malloc(len);
  for (int i = 0; i < len; i++) {
    unsigned x; sscanf(h + 2 * i, "%2x", &x); p[i] = (char)x;
  }
  *n = len;
  return p;
}

static int kop(HashMap *map, char *line) {
  static char op[16], conv[16], hex[70000]; int len = 0; unsigned long val = 0;
  int n = sscanf(line, "%15s %15s %69999s %d %lu", op, conv, hex, &len, &val);
  if (!strcmp(op, "hash") && n >= 2) {
    int m;
    sscanf(line, "%*s %69999s", hex);     // the operand is the second word
    char *p = unhex(hex, &m);
    printf("hash %lu\n", (unsigned long)fnv_hash(p, m));
    return 1;
  }
  if (n < 4) return 0;
  int objlen; char *obj = unhex(hex, &objlen);
  int which = !strcmp(op, "kput") ? 0 : !strcmp(op, "kdel") ? 1 : !strcmp(op, "kget") ? 2 : -1;
  if (which < 0 || (which == 0 && n != 5)) return 0;
  void *r = NULL;
  if (!strcmp(conv, "span")) {
    if (which == 0) hashmap_put2(map, obj, len, (void *)(size_t)val);
    else if (which == 1) hashmap_delete2(map, obj, len);
    else r = hashmap_get2(map, obj, len);
  } else if (!strcmp(conv, "dup") || !strcmp(conv, "cstr")) {
    char *k = !strcmp(conv, "dup") ? strndup(obj, len) : obj;
    if (which == 0) hashmap_put(map, k, (void *)(size_t)val);
    else if (which == 1) hashmap_delete(map, k);
    else r = hashmap_get(map, k);
  } else return 0;
  if (which == 0) { printf("put "); show_state_hex(map); }
  else if (which == 1) { printf("del "); show_state_hex(map); }
  else if (r) printf("get %zu\n", (size_t)r); else printf("get NULL\n");
  return 1;
}

int main(void) {
  signal(SIGFPE, on_fpe);
  HashMap *map = calloc(1, sizeof(HashMap));
  static char line[80000];
  while (fgets(line, sizeof line, stdin)) {
    char op[16], key[2048]; unsigned long val;
    if (line[0] == 'k' || !strncmp(line, "hash ", 5)) {
      if (!kop(map, line)) printf("bad-op\n");
      continue;
    }
    int n = sscanf(line, "%15s %2047s %lu", op, key, &val);
    if (n <= 0) continue;
    if (!strcmp(op, "put") && n == 3) {
      hashmap_put(map, strdup(key), (void *)(size_t)val);
      printf("put "); show_state(map);
    } else if (!strcmp(op, "del") && n == 2) {
      hashmap_delete(map, key);
      printf("del "); show_state(map);
    } else if (!strcmp(op, "get") && n == 2) {
      void *v = hashmap_get(map, key);
      if (v) printf("get %zu\n", (size_t)v); else printf("get NULL\n");
    } else if (!strcmp(op, "rehash") && n == 1) {
      // rehash() itself, on whatever state the history built (it is static; this file #includes hashmap.c)
      if (!map->buckets) printf("bad-op\n");
      else { rehash(map); printf("rehash "); show_state(map); }
    } else if (!strcmp(op, "reset") && n == 1) {
      map = calloc(1, sizeof(HashMap));
      printf("reset\n");
    } else {
      printf("bad-op\n");
    }
  }
  return 0;
}
