// In-process harness for C14 (argument parser): #includes the snapshot's main.c (so parse_args and the static option
// variables are visible), runs parse_args on every argv read from stdin in a forked child and prints the outcome in the
// canonical form of `drv_c14 parse` (lean/ChibiVerif/Driver/C14ArgvCmd.lean `parseLine`).
//
// build (checklib/C14.py): gcc -O1 -g -fsanitize=address,undefined -fno-sanitize-recover=all -I<snapshot> -I<dir of c14_vars.h>
//          c14_args_harness.c <snapshot>/{tokenize,preprocess,parse,type,codegen,hashmap,strings,unicode}.o
//          -Wl,--wrap=define_macro -Wl,--wrap=undef_macro
// c14_vars.h is written by the plugin from the regenerated Gen/C14ArgsGen.lean: X-macro lists C14_FLAGS, C14_STRS, C14_ARRS.
//
// input : one case per line, the argument words argv[1..] separated by 0x1f (an empty line: no words)
// output: ok <flag>=<0|1>… <str>=<N|S<enc>>… <arr>=[<N|S<enc>>,…]… define=[…] undef_macro=[…] opt_x=<none|c|asm|obj|ar|dso>
//         usage <status> | exit0 | unknown-arg <enc> | unknown-x <enc> | no-input | signal <n> | exit <status> <enc stderr>
#define main chibicc_main
#include "main.c"
#undef main
#include "c14_vars.h"
#include <signal.h>
#include <sys/wait.h>

// chibicc never frees: leak reports at exit() would only blur the outcome
const char *__asan_default_options(void) { return "detect_leaks=0"; }

static StringArray rec_define, rec_undef;

static void cut_line(char *s) {
  char *nl = strchr(s, '\n');
  if (nl) *nl = 0;
}

void __real_define_macro(char *name, char *buf);
void __real_undef_macro(char *name);
void __wrap_define_macro(char *name, char *buf) {
  strarray_push(&rec_define, format("%s=%s", name, buf));
  __real_define_macro(name, buf);
}
void __wrap_undef_macro(char *name) {
  strarray_push(&rec_undef, strdup(name));
  __real_undef_macro(name);
}

static void enc(FILE *out, const char *s) {
  for (; *s; s++) {
    unsigned char c = (unsigned char)*s;
    if (c < 128 && (isalnum(c) || c == '_' || c == '.' || c == '/' || c == '#' || c == '+' || c == '-'))
      fputc(c, out);
    else
      fprintf(out, "%%%02X", c);
  }
}

static void show_opt(FILE *out, const char *s) {
  if (!s) { fputc('N', out); return; }
  fputc('S', out);
  enc(out, s);
}

static void show_arr(FILE *out, const char *name, StringArray *a) {
  fprintf(out, " %s=[", name);
  for (int i = 0; i < a->len; i++) {
    if (i) fputc(',', out);
    show_opt(out, a->data[i]);
  }
  fputc(']', out);
}

static void show_state(FILE *out) {
  fprintf(out, "ok");
#define X(v) fprintf(out, " %s=%d", #v, (int)v);
  C14_FLAGS
#undef X
#define X(v) fprintf(out, " %s=", #v); show_opt(out, v);
  C14_STRS
#undef X
#define X(v) show_arr(out, #v, &v);
  C14_ARRS
#undef X
  show_arr(out, "define", &rec_define);
  show_arr(out, "undef_macro", &rec_undef);
  static const char *xs[] = {"none", "c", "asm", "obj", "ar", "dso"};
  fprintf(out, " opt_x=%s\n", xs[opt_x]);
}

int main(void) {
  char *line = NULL;
  size_t cap = 0;
  ssize_t n;
  while ((n = getline(&line, &cap, stdin)) > 0) {
    if (line[n - 1] == '\n') line[--n] = 0;
    // split
    char **argv = calloc(n + 3, sizeof(char *));
    int argc = 0;
    argv[argc++] = "chibicc";
    if (n > 0) {
      char *p = line;
      for (;;) {
        argv[argc++] = p;
        char *q = strchr(p, 0x1f);
        if (!q) break;
        *q = 0;
        p = q + 1;
      }
    }
    argv[argc] = NULL;
    int fds[2];
    if (pipe(fds)) { perror("pipe"); return 2; }
    fflush(stdout);
    pid_t pid = fork();
    if (pid == 0) {
      close(fds[0]);
      dup2(fds[1], 1);
      dup2(fds[1], 2);
      close(fds[1]);
      signal(SIGSEGV, SIG_DFL);
      init_macros();
      rec_define.len = 0;          // init_macros defines the predefined macros; only the command line's are compared
      rec_undef.len = 0;
      parse_args(argc, argv);
      show_state(stdout);
      fflush(stdout);
      _exit(0);
    }
    close(fds[1]);
    char *buf = NULL;
    size_t len = 0;
    FILE *mem = open_memstream(&buf, &len);
    char tmp[4096];
    ssize_t k;
    while ((k = read(fds[0], tmp, sizeof tmp)) > 0)
      fwrite(tmp, 1, k, mem);
    fclose(mem);
    close(fds[0]);
    int status = 0;
    waitpid(pid, &status, 0);
    if (WIFSIGNALED(status)) {
      printf("signal %d\n", WTERMSIG(status));
    } else if (!strncmp(buf, "ok ", 3) && WEXITSTATUS(status) == 0) {
      fputs(buf, stdout);
    } else if (strstr(buf, "chibicc [ -o <path> ] <file>")) {
      printf("usage %d\n", WEXITSTATUS(status));
    } else if (strstr(buf, "unknown argument for -x: ")) {
      char *s = strstr(buf, "unknown argument for -x: ") + strlen("unknown argument for -x: ");
      cut_line(s);
      printf("unknown-x ");
      enc(stdout, s);
      printf("\n");
    } else if (strstr(buf, "unknown argument: ")) {
      char *s = strstr(buf, "unknown argument: ") + strlen("unknown argument: ");
      cut_line(s);
      printf("unknown-arg ");
      enc(stdout, s);
      printf("\n");
    } else if (strstr(buf, "no input files")) {
      printf("no-input\n");
    } else if (WEXITSTATUS(status) == 0 && !strncmp(buf, "OK", 2)) {
      printf("exit0\n");
    } else {
      printf("exit %d ", WEXITSTATUS(status));
      enc(stdout, buf);
      printf("\n");
    }
    fflush(stdout);
    free(buf);
    free(argv);
  }
  return 0;
}
