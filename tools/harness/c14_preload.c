// LD_PRELOAD observer for the C14 process harness.  Appends one record per intercepted call to the
// file named by $C14_LOG (O_APPEND, one write() per record):
//
//   <pid>\t<ppid>\tmkstemp\t<path-or-FAIL>
//   <pid>\t<ppid>\tunlink\t<path>\t<rc>
//   <pid>\t<ppid>\texecvp\t<argv0>\t<argv1>\t...
//   <pid>\t<ppid>\twait\t<ret>\t<status>
//
// $C14_MKFAIL=<k>: the k-th (0-based) mkstemp call of a process fails with EMFILE (fault injection for
// create_tmpfile; the counter is per process, the driver is the only process that calls mkstemp).
// Nothing else about the calls is changed.
#define _GNU_SOURCE
#include <dlfcn.h>
#include <errno.h>
#include <fcntl.h>
#include <stdio.h>
#include <stdlib.h>
#include <string.h>
#include <sys/types.h>
#include <sys/wait.h>
#include <unistd.h>

static void emit(const char *buf, size_t len) {
  const char *path = getenv("C14_LOG");
  if (!path)
    return;
  int saved = errno;
  int fd = open(path, O_WRONLY | O_APPEND | O_CREAT | O_CLOEXEC, 0644);
  if (fd >= 0) {
    ssize_t r = write(fd, buf, len);
    (void)r;
    close(fd);
  }
  errno = saved;
}

static int mk_calls;

static int do_mkstemp(char *tmpl, const char *sym) {
  static int (*real)(char *);
  real = (int (*)(char *))dlsym(RTLD_NEXT, sym);
  const char *f = getenv("C14_MKFAIL");
  int idx = mk_calls++;
  char buf[4400];
  if (f && *f && atoi(f) == idx) {
    int n = snprintf(buf, sizeof buf, "%d\t%d\tmkstemp\tFAIL\n", (int)getpid(), (int)getppid());
    emit(buf, n);
    errno = EMFILE;
    return -1;
  }
  int fd = real(tmpl);
  int n = snprintf(buf, sizeof buf, "%d\t%d\tmkstemp\t%s\n", (int)getpid(), (int)getppid(), fd >= 0 ? tmpl : "FAIL");
  emit(buf, n);
  return fd;
}

int mkstemp(char *tmpl) { return do_mkstemp(tmpl, "mkstemp"); }
int mkstemp64(char *tmpl) { return do_mkstemp(tmpl, "mkstemp64"); }

int unlink(const char *path) {
  static int (*real)(const char *);
  if (!real)
    real = (int (*)(const char *))dlsym(RTLD_NEXT, "unlink");
  int rc = real(path);
  int saved = errno;
  char buf[4400];
  int n = snprintf(buf, sizeof buf, "%d\t%d\tunlink\t%s\t%d\n", (int)getpid(), (int)getppid(), path, rc);
  emit(buf, n);
  errno = saved;
  return rc;
}

int execvp(const char *file, char *const argv[]) {
  static int (*real)(const char *, char *const[]);
  if (!real)
    real = (int (*)(const char *, char *const[]))dlsym(RTLD_NEXT, "execvp");
  char buf[16384];
  int n = snprintf(buf, sizeof buf, "%d\t%d\texecvp", (int)getpid(), (int)getppid());
  for (int i = 0; argv[i] && n < (int)sizeof buf - 2; i++)
    n += snprintf(buf + n, sizeof buf - n - 1, "\t%s", argv[i]);
  if (n > (int)sizeof buf - 2)
    n = sizeof buf - 2;
  buf[n++] = '\n';
  emit(buf, n);
  return real(file, argv);
}

pid_t wait(int *status) {
  static pid_t (*real)(int *);
  if (!real)
    real = (pid_t (*)(int *))dlsym(RTLD_NEXT, "wait");
  int st = 0;
  pid_t r = real(&st);
  int saved = errno;
  if (r > 0) {
    char buf[128];
    int n = snprintf(buf, sizeof buf, "%d\t%d\twait\t%d\t%d\n", (int)getpid(), (int)getppid(), (int)r, st);
    emit(buf, n);
  }
  if (status && r > 0)
    *status = st;
  errno = saved;
  return r;
}
