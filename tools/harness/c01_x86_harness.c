// CPU side of the Model/X86 validation (C01 leg c).
// Linked with a generated seqs.s that defines `seq_table[]`/`seq_count`: each entry is a function
//   void seq_N(unsigned long *io)   io[0..3] = rax rdi rcx rdx on entry and on exit, io[4] = RFLAGS on exit,
//                                   io[5] = a quadword of memory (in/out), io[6] = %rsp before - %rsp after
// that loads the four registers, clears ZF SF CF OF PF, runs the instruction sequence and dumps the registers.
// (load sequences get %rax = &io[5]; store sequences find &io[5] on top of the stack.)
// stdin: lines `N rax rdi rcx rdx mem` (decimal).  stdout: `ok rax rdi rcx rdx zf sf cf of pf mem rspdelta` or `fault` (SIGFPE).
#define _GNU_SOURCE
#include <stdio.h>
#include <signal.h>
#include <setjmp.h>
#include <string.h>

typedef void (*seq_fn)(unsigned long *);
extern seq_fn seq_table[];
extern unsigned long seq_count;

static sigjmp_buf jb;
static void on_fpe(int sig) { (void)sig; siglongjmp(jb, 1); }

int main(void) {
  struct sigaction sa;
  memset(&sa, 0, sizeof sa);
  sa.sa_handler = on_fpe;
  sa.sa_flags = SA_NODEFER;
  sigaction(SIGFPE, &sa, 0);
  unsigned long n, io[7];
  while (scanf("%lu %lu %lu %lu %lu %lu", &n, &io[0], &io[1], &io[2], &io[3], &io[5]) == 6) {
    if (n >= seq_count) { puts("bad"); continue; }
    io[4] = 0;
    io[6] = 0;
    if (sigsetjmp(jb, 1)) { puts("fault"); continue; }
    seq_table[n](io);
    unsigned long f = io[4];
    printf("ok %lu %lu %lu %lu %lu %lu %lu %lu %lu %lu %ld\n", io[0], io[1], io[2], io[3],
           (f >> 6) & 1, (f >> 7) & 1, f & 1, (f >> 11) & 1, (f >> 2) & 1, io[5], (long)io[6]);
  }
  return 0;
}
