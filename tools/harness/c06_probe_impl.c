/* C06 probes - the part compiled by the compiler under test (chibicc; gcc and clang too, to validate the probe).
   Plain C11.  The checking side is c06_probe_ref.c (always gcc). */
struct Big { long a, b, c; };
struct Pair { long a; double d; };
typedef struct { float x, y, z; } F3;

long ref_leaf(long x);                       /* asserts that its frame is 16-byte aligned, uses movaps */
long ref_leaf7(long a, long b, long c, long d, long e, long f, long g);
double ref_leafd(double x, long double y);
long ref_leafs(struct Big b, long x);
void *alloca(unsigned long);

/* returns a large struct through the hidden pointer */
struct Big impl_big(long x) {
  struct Big b = { x, x + 1, x + 2 };
  return b;
}

struct Big impl_big_fwd(long x) {
  return impl_big(x + 10);
}

F3 impl_f3(float a) { F3 r = { a, a + 1, a + 2 }; return r; }

/* many temporaries, nested calls, a loop, a switch, division, shifts, floating point, struct copy:
   every family of instruction templates runs between entry and return */
long impl_work(long n, int *arr, double d, struct Pair p) {
  long acc = 0;
  struct Big bb = impl_big(n);
  for (int i = 0; i < n; i++) {
    acc += arr[i] * (i + 1) - (arr[i] >> 1) + (long)(d * i) + ref_leaf(acc % 7);
    acc ^= p.a + (long)p.d;
    switch (i & 3) {
    case 0: acc += ref_leaf7(1, 2, 3, 4, 5, 6, acc & 15); break;
    case 1: acc -= (long)ref_leafd(d, 2.5L); break;
    case 2: acc += ref_leafs(bb, i); break;
    default: acc = acc * 3 / 2; break;
    }
    acc = (unsigned long)acc % 1000003;
  }
  char buf[40];
  for (int i = 0; i < 40; i++) buf[i] = i;
  acc += buf[n % 40];
  return acc;
}

/* calls at operand-stack depths 0..3, with 0, 1 and 2 slots of stack arguments, nested in arguments */
long impl_depths(long x) {
  long r = 0;
  struct Big bb = { 1, 2, 3 };
  r += ref_leaf(x);
  r += x + ref_leaf(x);
  r += x + (x * (ref_leaf(x) + 1));
  r += x + (x * (x - (ref_leaf(x) + 1)));
  r += ref_leaf7(x, 2, 3, 4, 5, 6, 7);
  r += x + ref_leaf7(x, 2, 3, 4, 5, 6, 7);
  r += x + (x * ref_leaf7(x, 2, 3, 4, 5, 6, ref_leaf7(1, 2, 3, 4, 5, 6, ref_leaf(x))));
  r += (long)ref_leafd(1.5, 2.5L);
  r += x + (long)ref_leafd(1.5, 2.5L);
  r += x + (x * (long)ref_leafd((double)ref_leaf7(x, 2, 3, 4, 5, 6, 7), 2.5L));
  r += ref_leafs(bb, x);
  r += x + ref_leafs(bb, ref_leafs(bb, x));
  r += x + (x * ref_leaf7(ref_leafs(bb, 1), 2, 3, 4, 5, 6, ref_leafs(bb, 7)));
  return r;
}

/* alloca between calls keeps the stack aligned */
long impl_alloca(long n) {
  long r = ref_leaf(n);
  char *p = alloca(n);
  p[0] = 1;
  r += ref_leaf(n) + p[0];
  char *q = alloca(n + 3);
  q[0] = 2;
  r += n + ref_leaf7(1, 2, 3, 4, 5, 6, q[0]);
  return r;
}
