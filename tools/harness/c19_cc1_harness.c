// In-process harness for C19 (same-program half): the token list the compiler proper consumes.
//
// Runs, on every file named on the command line, exactly what cc1 runs before parse():
//     init_macros();  tok = tokenize_file(path);  tok = preprocess2(tok);  convert_pp_tokens(tok);
//     join_adjacent_string_literals(tok);
// with the real functions of the snapshot (checklib/C19.py writes `c19_amalgam.c` into the scratch directory: the snapshot's
// unicode.c, tokenize.c, type.c, hashmap.c, strings.c, preprocess.c, parse.c (for `#if`: const_expr) concatenated with their
// `#include "chibicc.h"` lines removed; nothing else is changed, so the `static` functions are reachable) and prints the list once after
// convert_pp_tokens (what Model/C19Convert.lean `cc1Tokens` models) and once after the concatenation of adjacent string
// literals (what parse() receives).  checklib/C19.py compares the lines for a source and for the text `chibicc -E` printed
// for it — the statement of the property on the real code — and with `drv_c19 pass cc1` where the models apply.
//
// usage: c19_cc1_harness [-I dir]... file...      one output line per file:
//   ok <tok> <tok> ... ;; <tok> <tok> ...    |   err <first line of the diagnostic, hex>   |   hang   |   crash <status>
//   <tok> = <k>:<hex spelling>[:<value>]     k = i p k s n o   (TK_IDENT TK_PUNCT TK_KEYWORD TK_STR TK_NUM other)
//           n: v<val hex>.<fval: the 10 significant bytes of the long double, hex>.<ty kind>.<ty size>.<unsigned>
//           s: <hex of the ty->size bytes of str>.<element size>.<array_len>
// Every file is processed in a forked child (error_tok() ends in exit(1); no state is shared between files).
// Run with ASAN_OPTIONS=exitcode=99 UBSAN_OPTIONS=exitcode=99.
//
// build: gcc -O1 -g -w -fsanitize=address,undefined -fno-sanitize-recover=all -I<snapshot> -I<scratch> c19_cc1_harness.c -o …
#include "chibicc.h"
#include <sys/wait.h>

#include "c19_amalgam.c"

// ---- things the included files reference but that live in main.c / codegen.c
StringArray include_paths;
char *base_file;
bool opt_E = false;
bool file_exists(char *path) { struct stat st; return !stat(path, &st); }
int align_to(int n, int align) { return (n + align - 1) / align * align; }

static char kind_char(Token *t) {
  switch (t->kind) {
  case TK_IDENT: return 'i';
  case TK_PUNCT: return 'p';
  case TK_KEYWORD: return 'k';
  case TK_STR: return 's';
  case TK_NUM: return 'n';
  default: return 'o';
  }
}

static void dump(FILE *out, Token *tok) {
  for (; tok && tok->kind != TK_EOF; tok = tok->next) {
    fprintf(out, " %c:", kind_char(tok));
    for (int i = 0; i < tok->len; i++)
      fprintf(out, "%02x", (unsigned char)tok->loc[i]);
    if (tok->kind == TK_NUM) {
      long double f = tok->fval;
      unsigned char b[sizeof f];
      memcpy(b, &f, sizeof f);
      fprintf(out, ":v%llx.", (unsigned long long)tok->val);
      for (int i = 0; i < 10; i++)
        fprintf(out, "%02x", b[i]);
      fprintf(out, ".%d.%d.%d", tok->ty ? (int)tok->ty->kind : -1, tok->ty ? tok->ty->size : -1,
              tok->ty ? (int)tok->ty->is_unsigned : -1);
    } else if (tok->kind == TK_STR) {
      fputc(':', out);
      for (int i = 0; tok->ty && i < tok->ty->size; i++)
        fprintf(out, "%02x", (unsigned char)tok->str[i]);
      fprintf(out, ".%d.%d", tok->ty && tok->ty->base ? tok->ty->base->size : -1, tok->ty ? tok->ty->array_len : -1);
    }
  }
}

static void run_one(char *path) {
  base_file = path;
  init_macros();
  Token *tok = tokenize_file(path);
  if (!tok)
    _exit(4);
  tok = preprocess2(tok);
  if (cond_incl)
    error_tok(cond_incl->tok, "unterminated conditional directive");
  convert_pp_tokens(tok);
  // the line is assembled in memory and written at once: a case that dies half-way prints nothing of its own
  char *buf; size_t len;
  FILE *out = open_memstream(&buf, &len);
  fputs("ok", out);
  dump(out, tok);
  fputs(" ;;", out);
  join_adjacent_string_literals(tok);
  dump(out, tok);
  fputc('\n', out);
  fclose(out);
  fwrite(buf, 1, len, stdout);
  fflush(stdout);
  _exit(0);
}

int main(int argc, char **argv) {
  int i = 1;
  for (; i + 1 < argc && !strcmp(argv[i], "-I"); i += 2)
    strarray_push(&include_paths, argv[i + 1]);
  for (; i < argc; i++) {
    fflush(stdout);
    int fds[2];
    if (pipe(fds)) {
      puts("crash pipe");
      continue;
    }
    pid_t pid = fork();
    if (pid < 0) {
      puts("crash fork");
      continue;
    }
    if (pid == 0) {
      close(fds[0]);
      dup2(fds[1], 2);          // the diagnostic goes to the parent
      close(fds[1]);
      alarm(20);
      run_one(argv[i]);
    }
    close(fds[1]);
    char msg[400];
    int n = 0, r;
    while (n < (int)sizeof msg - 1 && (r = read(fds[0], msg + n, sizeof msg - 1 - n)) > 0)
      n += r;
    char drain[4096];
    while (read(fds[0], drain, sizeof drain) > 0);
    close(fds[0]);
    int status = 0;
    waitpid(pid, &status, 0);
    if (WIFEXITED(status) && WEXITSTATUS(status) == 0)
      continue;                       // the child printed its line
    if (WIFEXITED(status) && WEXITSTATUS(status) == 1) {
      // the last line of the diagnostic is `<spaces>^ message`
      msg[n] = 0;
      char *caret = strrchr(msg, '^');
      char *m = caret ? caret + 1 : msg;
      while (*m == ' ') m++;
      fputs("err ", stdout);
      for (; *m && *m != '\n'; m++)
        printf("%02x", (unsigned char)*m);
      putchar('\n');
    } else if (WIFSIGNALED(status) && WTERMSIG(status) == SIGALRM)
      puts("hang");
    else
      printf("crash %d\n", status);
  }
  return 0;
}
