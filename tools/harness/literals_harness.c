// In-process harness for C11: runs the real unicode.c / tokenize.c / preprocess.c of the snapshot on the
// operations of the line protocol documented in lean/ChibiVerif/Driver/LiteralsCmd.lean and prints the
// same canonical lines as `drv_c11 literals`.
//
// checklib/C11.py writes `literals_amalgam.c` into the scratch directory: the snapshot's unicode.c,
// tokenize.c, type.c, hashmap.c, strings.c, preprocess.c concatenated with their `#include "chibicc.h"`
// lines removed (chibicc.h has no include guard); nothing else is changed, so `static` functions are
// reachable here.
//
// usage: literals_harness [scratch-file]   (the `file` operation writes its input there and runs tokenize_file() on it)
// build: gcc -O1 -g -w -fsanitize=address,undefined -fno-sanitize-recover=all
//            -I<snapshot> -I<scratch> literals_harness.c -o literals_harness
#include "chibicc.h"
#include <setjmp.h>

// error()/error_at()/error_tok() end in exit(1): turn that into a longjmp back to the command loop
static jmp_buf on_error;
static int error_armed;
static void harness_exit(int code) {
  if (error_armed)
    longjmp(on_error, 1);
  _exit(code);
}
#define exit(code) harness_exit(code)

// the diagnostics go to stderr: capture them to name the error site
static char *err_buf;
static size_t err_len;
static FILE *real_stderr;
static void arm(void) {
  if (!real_stderr) real_stderr = stderr;
  if (stderr != real_stderr) fclose(stderr);
  free(err_buf); err_buf = NULL;
  stderr = open_memstream(&err_buf, &err_len);
  error_armed = 1;
}
static char *err_name(void) {
  fflush(stderr);
  char *m = err_buf ? err_buf : "";
  if (strstr(m, "invalid UTF-8 sequence")) return "invalid-utf8";
  if (strstr(m, "invalid hex escape sequence")) return "invalid-hex-escape";
  if (strstr(m, "unclosed string literal")) return "unclosed-string";
  if (strstr(m, "unclosed char literal")) return "unclosed-char";
  if (strstr(m, "invalid numeric constant")) return "invalid-number";
  if (strstr(m, "unsupported non-standard concatenation of string literals")) return "non-standard-concat";
  if (strstr(m, "internal error")) return "unreachable";
  if (strstr(m, "invalid token")) return "not-a-literal";
  return "other";
}

#include "literals_amalgam.c"

// ---- things the included files reference but that live in parse.c / main.c / codegen.c
StringArray include_paths;
char *base_file = "harness.c";
bool opt_E;
bool file_exists(char *path) { return false; }
long const_expr(Token **rest, Token *tok) { printf("crash const_expr\n"); _exit(0); }
Node *new_cast(Node *expr, Type *ty) { printf("crash new_cast\n"); _exit(0); }
int align_to(int n, int align) { return (n + align - 1) / align * align; }

static int hexval(int c) {
  if ('0' <= c && c <= '9') return c - '0';
  if ('a' <= c && c <= 'f') return c - 'a' + 10;
  if ('A' <= c && c <= 'F') return c - 'A' + 10;
  return -1;
}

// parses "-" or an even number of hex digits into a NUL-terminated buffer (with slack for over-reads that
// the real code may do on malformed input: they then hit zeros, like the model's byteAt)
static char *parse_bytes(char *s, int *len) {
  int n = strlen(s);
  char *buf = calloc(1, n / 2 + 64);
  *len = 0;
  if (!strcmp(s, "-")) return buf;
  if (n % 2) return NULL;
  for (int i = 0; i < n; i += 2) {
    int a = hexval(s[i]), b = hexval(s[i + 1]);
    if (a < 0 || b < 0) return NULL;
    buf[(*len)++] = a * 16 + b;
  }
  return buf;
}

static void print_bytes(char *p, int n) {
  if (n == 0) { printf("-"); return; }
  for (int i = 0; i < n; i++) printf("%02x", (unsigned char)p[i]);
}

static char *ty_name(Type *ty) {
  if (ty == ty_bool) return "bool";
  if (ty == ty_char) return "char";
  if (ty == ty_short) return "short";
  if (ty == ty_int) return "int";
  if (ty == ty_long) return "long";
  if (ty == ty_uchar) return "uchar";
  if (ty == ty_ushort) return "ushort";
  if (ty == ty_uint) return "uint";
  if (ty == ty_ulong) return "ulong";
  if (ty == ty_float) return "float";
  if (ty == ty_double) return "double";
  if (ty == ty_ldouble) return "ldouble";
  return "other";
}

static void set_file(char *contents) {
  current_file = new_file("harness.c", 1, contents);
}

static void print_units(Token *tok) {
  int n = tok->ty->array_len - 1;
  int sz = tok->ty->base->size;
  if (n == 0) { printf("-"); return; }
  for (int i = 0; i < n; i++) {
    unsigned long u = sz == 1 ? (unsigned char)tok->str[i] : sz == 2 ? ((uint16_t *)tok->str)[i] : ((uint32_t *)tok->str)[i];
    printf("%s%lx", i ? " " : "", u);
  }
}

static void print_str(Token *tok) {
  printf("%s %d ", ty_name(tok->ty->base), tok->ty->array_len);
  print_units(tok);
}

// the literal-reading arms of tokenize() are inside its loop; run tokenize() on the text and look at the first token
static Token *first_token(char *text) {
  File *f = new_file("harness.c", 1, text);
  return tokenize(f);
}

static char *tmp_path;

int main(int argc, char **argv) {
  static char line[1 << 20];
  tmp_path = argc > 1 ? argv[1] : NULL;
  while (fgets(line, sizeof line, stdin)) {
    char *op = strtok(line, " \n");
    if (!op) continue;
    char *arg = strtok(NULL, " \n");
    error_armed = 0;
    if (!strcmp(op, "enc") && arg) {
      char buf[16] = {0};
      uint32_t c = strtoul(arg, NULL, 16);
      int n = encode_utf8(buf, c);
      printf("enc %d ", n); print_bytes(buf, n); printf("\n");
    } else if (!strcmp(op, "dec") && arg) {
      int len; char *p = parse_bytes(arg, &len);
      if (!p) { printf("bad-op\n"); continue; }
      set_file(p);
      arm();
      if (setjmp(on_error)) { printf("dec err\n"); continue; }
      char *q; uint32_t c = decode_utf8(&q, p);
      printf("dec ok %x %d\n", c, (int)(q - p));
    } else if (!strcmp(op, "id") && arg) {
      uint32_t c = strtoul(arg, NULL, 16);
      printf("id %d %d\n", is_ident1(c), is_ident2(c));
    } else if (!strcmp(op, "u16") && arg) {
      // the surrogate arithmetic is inside read_utf16_string_literal: feed it u"<encode_utf8(c)>"
      uint32_t c = strtoul(arg, NULL, 16);
      char text[32] = "u\"";
      int n = encode_utf8(text + 2, c);
      text[2 + n] = '"'; text[3 + n] = '\n';
      set_file(text);
      arm();
      if (setjmp(on_error)) { printf("u16 err\n"); continue; }
      Token *tok = read_utf16_string_literal(text, text + 1);
      printf("u16 "); print_units(tok); printf("\n");
    } else if (!strcmp(op, "int") && arg) {
      int len; char *p = parse_bytes(arg, &len);
      if (!p) { printf("bad-op\n"); continue; }
      set_file(p);
      Token *tok = new_token(TK_PP_NUM, p, p + len);
      arm();
      if (setjmp(on_error)) { printf("int err\n"); continue; }
      if (convert_pp_int(tok)) printf("int %lx %s\n", (unsigned long)tok->val, ty_name(tok->ty));
      else printf("int no\n");
    } else if (!strcmp(op, "inta") && arg) {
      // convert_pp_int on a token inside its text: inta <loc> <len> <hex text>
      char *a2 = strtok(NULL, " \n"), *a3 = strtok(NULL, " \n");
      int len; char *p = a3 ? parse_bytes(a3, &len) : NULL;
      int loc = atoi(arg), tl = a2 ? atoi(a2) : 0;
      if (!p || loc + tl > len) { printf("bad-op\n"); continue; }
      set_file(p);
      Token *tok = new_token(TK_PP_NUM, p + loc, p + loc + tl);
      arm();
      if (setjmp(on_error)) { printf("inta err\n"); continue; }
      if (convert_pp_int(tok)) printf("inta %lx %s\n", (unsigned long)tok->val, ty_name(tok->ty));
      else printf("inta no\n");
    } else if (!strcmp(op, "stl") && arg) {
      // libc strtoul itself (the function convert_pp_int calls), against the Lean model `strtoulC`: stl <base> <hex text>
      char *a2 = strtok(NULL, " \n");
      int len; char *p = a2 ? parse_bytes(a2, &len) : NULL;
      if (!p) { printf("bad-op\n"); continue; }
      char *end;
      unsigned long v = strtoul(p, &end, atoi(arg));
      printf("stl %lx %d\n", v, (int)(end - p));
    } else if (!strcmp(op, "ppn") && arg) {
      // the pp-number arm of tokenize() at text + start: the scan is inside tokenize()'s loop, so run tokenize() there and look at
      // the first token (the generator leaves only harmless text after it)
      char *a2 = strtok(NULL, " \n");
      int len; char *p = a2 ? parse_bytes(a2, &len) : NULL;
      int start = atoi(arg);
      if (!p || start > len) { printf("bad-op\n"); continue; }
      arm();
      if (setjmp(on_error)) { printf("ppn err %s\n", err_name()); continue; }
      Token *tok = first_token(p + start);
      if (tok->kind == TK_PP_NUM && tok->loc == p + start) printf("ppn %d\n", start + tok->len);
      else printf("ppn no\n");
    } else if (!strcmp(op, "esc") && arg) {
      int len; char *p = parse_bytes(arg, &len);
      if (!p) { printf("bad-op\n"); continue; }
      set_file(p);
      arm();
      if (setjmp(on_error)) { printf("esc err\n"); continue; }
      char *q; int c = read_escaped_char(&q, p);
      printf("esc %x %d\n", (unsigned)c, (int)(q - p));
    } else if (!strcmp(op, "fhex") && arg) {
      int len; char *p = parse_bytes(arg, &len);
      if (!p || len != 1) { printf("bad-op\n"); continue; }
      printf("fhex %x\n", (unsigned)from_hex(p[0]));
    } else if (!strcmp(op, "ruc") && arg) {
      char *arg2 = strtok(NULL, " \n");
      int len; char *p = arg2 ? parse_bytes(arg2, &len) : NULL;
      if (!p) { printf("bad-op\n"); continue; }
      printf("ruc %x\n", read_universal_char(p, atoi(arg)));
    } else if (!strcmp(op, "sle") && arg) {
      char *arg2 = strtok(NULL, " \n");
      int len; char *p = arg2 ? parse_bytes(arg2, &len) : NULL;
      int start = atoi(arg);
      if (!p || start > len) { printf("bad-op\n"); continue; }
      set_file(p);
      arm();
      if (setjmp(on_error)) { printf("sle err\n"); continue; }
      printf("sle %d\n", (int)(string_literal_end(p + start) - p));
    } else if (!strcmp(op, "rsl") && arg) {
      char *a2 = strtok(NULL, " \n"), *a3 = strtok(NULL, " \n");
      int len; char *p = a3 ? parse_bytes(a3, &len) : NULL;
      int quote = a2 ? atoi(a2) : 0;
      if (!p || quote >= len) { printf("bad-op\n"); continue; }
      set_file(p);
      arm();
      if (setjmp(on_error)) { printf("rsl err %s\n", err_name()); continue; }
      Token *tok = !strcmp(arg, "n") ? read_string_literal(p, p + quote)
                 : !strcmp(arg, "u16") ? read_utf16_string_literal(p, p + quote) : read_utf32_string_literal(p, p + quote, ty_uint);
      printf("rsl %d ", tok->ty->array_len); print_units(tok); printf(" %d\n", tok->len);
    } else if (!strcmp(op, "rcl") && arg) {
      char *a2 = strtok(NULL, " \n");
      int len; char *p = a2 ? parse_bytes(a2, &len) : NULL;
      int quote = atoi(arg);
      if (!p || quote >= len) { printf("bad-op\n"); continue; }
      set_file(p);
      arm();
      if (setjmp(on_error)) { printf("rcl err %s\n", err_name()); continue; }
      Token *tok = read_char_literal(p, p + quote, ty_int);
      printf("rcl %x %d\n", (unsigned)tok->val, tok->len - 1);
    } else if (!strcmp(op, "lit") && arg) {
      int len; char *p = parse_bytes(arg, &len);
      if (!p) { printf("bad-op\n"); continue; }
      arm();
      if (setjmp(on_error)) { printf("lit err %s\n", err_name()); continue; }
      Token *tok = first_token(p);
      if (tok->kind == TK_STR) { printf("lit str "); print_str(tok); printf(" %d\n", tok->len); }
      else if (tok->kind == TK_NUM) printf("lit chr %lx %s %d\n", (unsigned long)tok->val, ty_name(tok->ty), tok->len);
      else if (tok->kind == TK_PP_NUM) {
        int n = tok->len;
        if (convert_pp_int(tok)) printf("lit int %lx %s %d\n", (unsigned long)tok->val, ty_name(tok->ty), n);
        else printf("lit flt %d\n", n);
      } else printf("lit err not-a-literal\n");
    } else if (!strcmp(op, "text") && arg) {
      int len; char *p = parse_bytes(arg, &len);
      if (!p) { printf("bad-op\n"); continue; }
      // read_file(): make sure the text ends in a newline
      if (len == 0 || p[len - 1] != '\n') p[len++] = '\n';
      if (!memcmp(p, "\xef\xbb\xbf", 3)) p += 3;       // tokenize_file (pinned by the translator)
      canonicalize_newline(p);
      remove_backslash_newline(p);
      convert_universal_chars(p);
      printf("text "); print_bytes(p, strlen(p)); printf("\n");
    } else if (!strcmp(op, "file") && arg) {
      // the whole path of tokenize_file(): the bytes are written to a file (argv[1]) and read back by read_file(), then
      // BOM skip, canonicalize_newline, remove_backslash_newline, convert_universal_chars, tokenize(); prints the text
      // tokenize() was given and the first token
      int len; char *p = parse_bytes(arg, &len);
      if (!p || !tmp_path) { printf("bad-op\n"); continue; }
      FILE *fp = fopen(tmp_path, "wb");
      if (!fp) { printf("crash cannot write %s\n", tmp_path); _exit(0); }
      fwrite(p, 1, len, fp);
      fclose(fp);
      arm();
      if (setjmp(on_error)) { printf("file err %s\n", err_name()); continue; }
      Token *tok = tokenize_file(tmp_path);
      if (!tok) { printf("file err unreadable\n"); continue; }
      printf("file "); print_bytes(tok->file->contents, strlen(tok->file->contents)); printf(" ");
      if (tok->kind == TK_STR) { printf("str "); print_str(tok); printf(" %d\n", tok->len); }
      else if (tok->kind == TK_NUM) printf("chr %lx %s %d\n", (unsigned long)tok->val, ty_name(tok->ty), tok->len);
      else if (tok->kind == TK_PP_NUM) {
        int n = tok->len;
        if (convert_pp_int(tok)) printf("int %lx %s %d\n", (unsigned long)tok->val, ty_name(tok->ty), n);
        else printf("flt %d\n", n);
      } else printf("other\n");
    } else if (!strcmp(op, "join") && arg) {
      // adjacent literals separated by one space, then EOF
      char *text = calloc(1, 1 << 16); int n = 0; int bad = 0;
      for (char *a = arg; a; a = strtok(NULL, " \n")) {
        int len; char *p = parse_bytes(a, &len);
        if (!p) { bad = 1; break; }
        if (n) text[n++] = ' ';
        memcpy(text + n, p, len); n += len;
      }
      if (bad) { printf("bad-op\n"); continue; }
      text[n++] = '\n';
      arm();
      if (setjmp(on_error)) { printf("join err %s\n", err_name()); continue; }
      Token *tok = first_token(text);
      join_adjacent_string_literals(tok);
      printf("join "); print_str(tok); printf("\n");
    } else if (!strcmp(op, "joinb") && arg) {
      // a whole token list: every argument is the text of one token, separated by one space, then a newline and EOF;
      // prints every token after join_adjacent_string_literals: string literals with element type, array_len and the
      // ty->size bytes at str, any other token as O
      char *text = calloc(1, 1 << 16); int n = 0; int bad = 0;
      for (char *a = arg; a; a = strtok(NULL, " \n")) {
        int len; char *p = parse_bytes(a, &len);
        if (!p) { bad = 1; break; }
        if (n) text[n++] = ' ';
        memcpy(text + n, p, len); n += len;
      }
      if (bad) { printf("bad-op\n"); continue; }
      text[n++] = '\n';
      arm();
      if (setjmp(on_error)) { printf("joinb err %s\n", err_name()); continue; }
      Token *tok = first_token(text);
      join_adjacent_string_literals(tok);
      printf("joinb");
      for (Token *t = tok; t->kind != TK_EOF; t = t->next) {
        if (t->kind == TK_STR) {
          printf(" S:%s:%d:", ty_name(t->ty->base), t->ty->array_len);
          print_bytes(t->str, t->ty->size);
        } else printf(" O");
      }
      printf("\n");
    } else if (!strcmp(op, "filej") && arg) {
      // a file through read_file(), tokenize_file() (phases, tokenize) and join_adjacent_string_literals(); prints every token
      int len; char *p = parse_bytes(arg, &len);
      if (!p || !tmp_path) { printf("bad-op\n"); continue; }
      FILE *fp = fopen(tmp_path, "wb");
      if (!fp) { printf("crash cannot write %s\n", tmp_path); _exit(0); }
      fwrite(p, 1, len, fp);
      fclose(fp);
      arm();
      if (setjmp(on_error)) { printf("filej err %s\n", err_name()); continue; }
      Token *tok = tokenize_file(tmp_path);
      if (!tok) { printf("filej err unreadable\n"); continue; }
      join_adjacent_string_literals(tok);
      printf("filej");
      for (Token *t = tok; t->kind != TK_EOF; t = t->next) {
        if (t->kind == TK_STR) {
          printf(" S:%s:%d:", ty_name(t->ty->base), t->ty->array_len);
          print_bytes(t->str, t->ty->size);
        } else printf(" O");
      }
      printf("\n");
    } else if (!strcmp(op, "rdf") && arg) {
      // read_file() on a file with these bytes: the returned C string and its terminator
      int len; char *p = parse_bytes(arg, &len);
      if (!p || !tmp_path) { printf("bad-op\n"); continue; }
      FILE *fp = fopen(tmp_path, "wb");
      if (!fp) { printf("crash cannot write %s\n", tmp_path); _exit(0); }
      fwrite(p, 1, len, fp);
      fclose(fp);
      char *q = read_file(tmp_path);
      if (!q) { printf("rdf err unreadable\n"); continue; }
      printf("rdf "); print_bytes(q, strlen(q) + 1); printf("\n");
    } else {
      printf("bad-op\n");
    }
    fflush(stdout);
  }
  return 0;
}
