/* C03 behavioural harness (compiled by gcc, linked with an object file produced either by the
   snapshot's chibicc or by gcc from the same generated source).

   The generated translation unit defines `void f<i>(void)` for i < NF.  Its observable
   behaviour is the sequence of calls
       void m(int k);   int c(int k);   long in(int k);   void r(long v);
   `c` and `in` return the next value of the function's oracle stream (0 when exhausted).
   Streams are read from the file named on the command line:  one line per function
       F <i> <n> v1 ... vn        (signed 64-bit decimals)
   After LIMIT events the run of the function is cut (longjmp) and `LIMIT` is printed; a run
   that spins without events (`L: goto L;`) is cut by a CPU-time timer and `SPIN` is printed; so
   every run terminates.  Events are appended to a memory buffer without stdio (the timer's
   siglongjmp may interrupt an append: a line counts only once `committed` has moved past it). */
#include <stdio.h>
#include <stdlib.h>
#include <setjmp.h>
#include <string.h>
#include <signal.h>
#include <sys/time.h>

#define NMAX 64
#define DECL(i) extern void f##i(void) __attribute__((weak));
#define ROW(i) f##i,
#define ALL(X) X(0) X(1) X(2) X(3) X(4) X(5) X(6) X(7) X(8) X(9) X(10) X(11) X(12) X(13) X(14) X(15) \
  X(16) X(17) X(18) X(19) X(20) X(21) X(22) X(23) X(24) X(25) X(26) X(27) X(28) X(29) X(30) X(31) \
  X(32) X(33) X(34) X(35) X(36) X(37) X(38) X(39) X(40) X(41) X(42) X(43) X(44) X(45) X(46) X(47) \
  X(48) X(49) X(50) X(51) X(52) X(53) X(54) X(55) X(56) X(57) X(58) X(59) X(60) X(61) X(62) X(63)
ALL(DECL)
static void (*fns[NMAX])(void) = { ALL(ROW) };

static long *vals[NMAX];
static int nvals[NMAX];
static long *cur; static int ncur, oi, events, limit = 400;
static sigjmp_buf jb;

static void tick(void) { if (++events > limit) siglongjmp(jb, 1); }
static long next(void) { long v = oi < ncur ? cur[oi] : 0; oi++; return v; }

static char buf[1 << 20];
static volatile unsigned long committed;

static void put(const char *tag, long v) {
  unsigned long at = committed;
  char tmp[24];
  int n = 0;
  unsigned long u = v < 0 ? 0UL - (unsigned long)v : (unsigned long)v;
  do { tmp[n++] = '0' + u % 10; u /= 10; } while (u);
  if (at + 32 > sizeof buf) return;
  while (*tag) buf[at++] = *tag++;
  buf[at++] = ' ';
  if (v < 0) buf[at++] = '-';
  while (n) buf[at++] = tmp[--n];
  buf[at++] = '\n';
  committed = at;
}

void m(int k) { tick(); put("m", k); }
int c(int k) { tick(); put("c", k); return (int)next(); }
long in(int k) { tick(); put("in", k); return next(); }
void r(long v) { tick(); put("r", v); }

static void on_alarm(int sig) { (void)sig; siglongjmp(jb, 2); }

int main(int argc, char **argv) {
  if (argc < 2) return 2;
  if (argc > 2) limit = atoi(argv[2]);
  FILE *fp = fopen(argv[1], "r");
  if (!fp) return 2;
  char tag[8]; int i, n;
  while (fscanf(fp, "%7s %d %d", tag, &i, &n) == 3) {
    if (strcmp(tag, "F") || i < 0 || i >= NMAX || n < 0) return 2;
    vals[i] = calloc(n + 1, sizeof(long));
    nvals[i] = n;
    for (int j = 0; j < n; j++) if (fscanf(fp, "%ld", &vals[i][j]) != 1) return 2;
  }
  fclose(fp);
  for (i = 0; i < NMAX; i++) {
    if (!fns[i]) continue;
    printf("== %d\n", i);
    cur = vals[i]; ncur = nvals[i]; oi = 0; events = 0;
    struct itimerval tv = { {0, 0}, {0, 150000} }, off = { {0, 0}, {0, 0} };
    committed = 0;
    int how = sigsetjmp(jb, 1);
    if (how == 0) {
      signal(SIGVTALRM, on_alarm);
      setitimer(ITIMER_VIRTUAL, &tv, 0);
      fns[i]();
      setitimer(ITIMER_VIRTUAL, &off, 0);
    } else {
      setitimer(ITIMER_VIRTUAL, &off, 0);
    }
    fwrite(buf, 1, committed, stdout);
    printf(how == 0 ? "END\n" : how == 1 ? "LIMIT\n" : "SPIN\n");
    fflush(stdout);
  }
  return 0;
}
