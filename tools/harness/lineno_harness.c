// C18 in-process harness: runs the REAL phase functions of the snapshot's tokenize.c
// (BOM skip, canonicalize_newline, remove_backslash_newline, convert_universal_chars as tokenize_file calls them),
// then the real tokenize() (which ends with add_line_numbers), on byte strings given as hex lines on stdin.
// Output per input line:  text=<hex of the text tokenize() sees>  toks=<loc:line_no,...>   (loc = offset into that text)
//                    or   text=<hex> toks=err:<line printed>:<caret column>:<hex of the source line shown>
// Build (checklib/C18.py): gcc -fsanitize=address,undefined -Dmain=chibicc_main -I<snapshot> <snapshot>/main.c this.c <other snapshot .c files>
#define _POSIX_C_SOURCE 200809L
#include <stdio.h>
#include <stdlib.h>
#include <string.h>
#include <setjmp.h>
#undef main
static jmp_buf hjmp;
static _Noreturn void harness_exit(int c) { (void)c; longjmp(hjmp, 1); }
#define exit(c) harness_exit(c)
#include "tokenize.c"
#undef exit

static void put_hex(const char *p, size_t n) {
  if (n == 0) { putchar('-'); return; }
  for (size_t i = 0; i < n; i++) printf("%02x", (unsigned char)p[i]);
}

int main(void) {
  char *line = NULL;
  size_t cap = 0;
  ssize_t len;
  while ((len = getline(&line, &cap, stdin)) > 0) {
    while (len > 0 && (line[len - 1] == '\n' || line[len - 1] == '\r')) line[--len] = 0;
    size_t n = (len == 1 && line[0] == '-') ? 0 : (size_t)len / 2;
    // what read_file returns: the bytes, a final '\n' if missing, NUL (padded: memcmp(p, BOM, 3) may look at 3 bytes)
    char *buf = calloc(n + 8, 1);
    for (size_t i = 0; i < n; i++) { unsigned v; sscanf(line + 2 * i, "%2x", &v); buf[i] = (char)v; }
    if (n == 0 || buf[n - 1] != '\n') buf[n++] = '\n';
    char *p = buf;
    if (!memcmp(p, "\xef\xbb\xbf", 3)) p += 3;
    canonicalize_newline(p);
    remove_backslash_newline(p);
    convert_universal_chars(p);
    printf("text="); put_hex(p, strlen(p));
    // capture what verror_at prints
    char *ebuf = NULL; size_t elen = 0;
    FILE *saved = stderr;
    FILE *mem = open_memstream(&ebuf, &elen);
    stderr = mem;
    Token *tok = NULL;
    int failed = 0;
    if (setjmp(hjmp) == 0) tok = tokenize(new_file("x.c", 1, p)); else failed = 1;
    fflush(mem); stderr = saved; fclose(mem);
    if (failed) {
      int ln = -1; char *colon = strstr(ebuf, "x.c:");
      if (colon) ln = atoi(colon + 4);
      char *src = colon ? strstr(colon + 4, ": ") : NULL;
      char *eol = src ? strchr(src, '\n') : NULL;
      int col = -1;
      if (eol) { char *caret = strchr(eol + 1, '^'); if (caret) col = (int)(caret - (eol + 1)) - (int)(src + 2 - colon); }
      printf(" toks=err:%d:%d:", ln, col);
      if (src && eol) put_hex(src + 2, (size_t)(eol - (src + 2))); else putchar('?');
    } else {
      printf(" toks=");
      int first = 1;
      for (Token *t = tok; t; t = t->next) { printf("%s%d:%d", first ? "" : ",", (int)(t->loc - p), t->line_no); first = 0; }
      if (first) putchar('-');
    }
    putchar('\n');
    free(ebuf);
  }
  return 0;
}
