// In-process harness for C09: runs the real preprocess2() of the snapshot (init_macros, tokenize_file, expand_macro,
// subst, hide-set bookkeeping) on source files and prints, for every token of the result, its spelling AND ITS HIDE SET
// (struct Hideset is private to preprocess.c; `chibicc -E` cannot show it).  checklib/C09.py compares the lines with
// `drv_c09 expandh` (Model/PP.lean), so the hide-set algebra of the model — what the termination theorem
// C09_terminates argues about — is tied to the code on state, not only through its effect on the spellings.
//
// checklib/C09.py writes `pp_amalgam.c` into the scratch directory: the snapshot's unicode.c, tokenize.c, type.c,
// hashmap.c, strings.c, preprocess.c concatenated with their `#include "chibicc.h"` lines removed (chibicc.h has no
// include guard); nothing else is changed, so `static` functions and types are reachable here.
//
// usage: pp_harness <dir> ...      each <dir> holds a file t.c; one output line per directory:
//   ok <hex spelling>@<name>,<name>,... ...   |   err   |   hang   |   crash <status>
// Every directory is processed in a forked child (error_tok() ends in exit(1); state is never shared between cases).
// Run with ASAN_OPTIONS=exitcode=99 UBSAN_OPTIONS=exitcode=99 so that a sanitizer report is not mistaken for a diagnostic.
//
// build: gcc -O1 -g -w -fsanitize=address,undefined -fno-sanitize-recover=all -I<snapshot> -I<scratch> pp_harness.c -o pp_harness
#include "chibicc.h"
#include <sys/wait.h>

#include "pp_amalgam.c"

// ---- things the included files reference but that live in parse.c / main.c / codegen.c
StringArray include_paths;
char *base_file = "t.c";
bool opt_E = true;
bool file_exists(char *path) { struct stat st; return !stat(path, &st); }
long const_expr(Token **rest, Token *tok) { fprintf(stderr, "harness: const_expr reached\n"); _exit(3); }
Node *new_cast(Node *expr, Type *ty) { fprintf(stderr, "harness: new_cast reached\n"); _exit(3); }
int align_to(int n, int align) { return (n + align - 1) / align * align; }

static void run_one(void) {
  init_macros();
  Token *tok = tokenize_file("t.c");
  if (!tok)
    _exit(4);
  tok = preprocess2(tok);
  // the line is assembled in memory and written at once: a case that dies half-way prints nothing of its own
  char *buf; size_t len;
  FILE *out = open_memstream(&buf, &len);
  fputs("ok", out);
  for (; tok && tok->kind != TK_EOF; tok = tok->next) {
    fputc(' ', out);
    for (int i = 0; i < tok->len; i++)
      fprintf(out, "%02x", (unsigned char)tok->loc[i]);
    fputc('@', out);
    for (Hideset *hs = tok->hideset; hs; hs = hs->next)
      fprintf(out, "%s%s", hs == tok->hideset ? "" : ",", hs->name);
  }
  fputc('\n', out);
  fclose(out);
  fwrite(buf, 1, len, stdout);
  fflush(stdout);
  _exit(0);
}

int main(int argc, char **argv) {
  for (int i = 1; i < argc; i++) {
    fflush(stdout);
    pid_t pid = fork();
    if (pid < 0) {
      puts("crash fork");
      continue;
    }
    if (pid == 0) {
      if (chdir(argv[i]))
        _exit(4);
      fclose(stderr);
      stderr = fopen("/dev/null", "w");
      alarm(5);
      run_one();
    }
    int status = 0;
    waitpid(pid, &status, 0);
    if (WIFEXITED(status) && WEXITSTATUS(status) == 0)
      continue;                       // the child printed its line
    if (WIFEXITED(status) && WEXITSTATUS(status) == 1)
      puts("err");
    else if (WIFSIGNALED(status) && WTERMSIG(status) == SIGALRM)
      puts("hang");
    else
      printf("crash %d\n", status);
  }
  return 0;
}
