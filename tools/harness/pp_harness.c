// In-process harness for C09: runs the real preprocess2() of the snapshot (init_macros, tokenize_file, expand_macro,
// subst, hide-set bookkeeping) on source files and prints, for every token of the result, its spelling AND ITS HIDE SET
// (struct Hideset is private to preprocess.c; `chibicc -E` cannot show it).  checklib/C09.py compares the lines with
// `drv_c09 expandh` (Model/PP.lean), so the hide-set algebra of the model — what the termination theorem
// C09_terminates argues about — is tied to the code on state, not only through its effect on the spellings.
//
// checklib/C09.py writes `pp_amalgam.c` into the scratch directory: the snapshot's unicode.c, tokenize.c, type.c,
// hashmap.c, strings.c, preprocess.c concatenated with their `#include "chibicc.h"` lines removed (chibicc.h has no
// include guard); nothing else is changed, so `static` functions and types are reachable here.
//
// usage: pp_harness <dir> ...      each <dir> holds a file t.c; one output line per directory:
//   ok <hex spelling>@<name>,<name>,... ...   |   err   |   hang   |   crash <status>
// usage: pp_harness -subst <dir> ...   each <dir> holds t.c (definitions: #define / #undef lines) and u.c (one invocation
//   `name ( arguments ) ...`): the definitions are processed by preprocess2(), then find_macro(), read_macro_args() and the
//   static function subst() are called DIRECTLY on the invocation and the token list subst() returns is printed BEFORE any
//   rescanning — the function `C09_subst_spec` is about (`drv_c09 subst` prints the model's).  One line per directory:
//   ok <k><at_bol><has_space>.<hex spelling> ...   (k = i n s p o: identifier, pp-number, string, punctuator, character constant)
//   |   na  (not a function-like macro followed by `(`)   |   err   |   hang   |   crash <status>
// Every directory is processed in a forked child (error_tok() ends in exit(1); state is never shared between cases).
// Run with ASAN_OPTIONS=exitcode=99 UBSAN_OPTIONS=exitcode=99 so that a sanitizer report is not mistaken for a diagnostic.
//
// build: gcc -O1 -g -w -fsanitize=address,undefined -fno-sanitize-recover=all -I<snapshot> -I<scratch> pp_harness.c -o pp_harness
#include "chibicc.h"
#include <sys/wait.h>

#include "pp_amalgam.c"

// ---- things the included files reference but that live in parse.c / main.c / codegen.c
StringArray include_paths;
char *base_file = "t.c";
bool opt_E = true;
bool file_exists(char *path) { struct stat st; return !stat(path, &st); }
long const_expr(Token **rest, Token *tok) { fprintf(stderr, "harness: const_expr reached\n"); _exit(3); }
Node *new_cast(Node *expr, Type *ty) { fprintf(stderr, "harness: new_cast reached\n"); _exit(3); }
int align_to(int n, int align) { return (n + align - 1) / align * align; }

static void run_one(void) {
  init_macros();
  Token *tok = tokenize_file("t.c");
  if (!tok)
    _exit(4);
  tok = preprocess2(tok);
  // the line is assembled in memory and written at once: a case that dies half-way prints nothing of its own
  char *buf; size_t len;
  FILE *out = open_memstream(&buf, &len);
  fputs("ok", out);
  for (; tok && tok->kind != TK_EOF; tok = tok->next) {
    fputc(' ', out);
    for (int i = 0; i < tok->len; i++)
      fprintf(out, "%02x", (unsigned char)tok->loc[i]);
    fputc('@', out);
    for (Hideset *hs = tok->hideset; hs; hs = hs->next)
      fprintf(out, "%s%s", hs == tok->hideset ? "" : ",", hs->name);
  }
  fputc('\n', out);
  fclose(out);
  fwrite(buf, 1, len, stdout);
  fflush(stdout);
  _exit(0);
}

static char kind_char(Token *t) {
  switch (t->kind) {
  case TK_IDENT: return 'i';
  case TK_PP_NUM: return 'n';
  case TK_STR: return 's';
  case TK_PUNCT: return 'p';
  default: return 'o';
  }
}

static void run_subst(void) {
  init_macros();
  Token *tok = tokenize_file("t.c");
  if (!tok)
    _exit(4);
  preprocess2(tok);                          // the definitions
  Token *inv = tokenize_file("u.c");
  if (!inv)
    _exit(4);
  Macro *m = find_macro(inv);
  if (!m || m->handler || m->is_objlike || !equal(inv->next, "(")) {
    puts("na");
    fflush(stdout);
    _exit(0);
  }
  Token *t = inv;
  MacroArg *args = read_macro_args(&t, t, m->params, m->va_args_name);
  Token *body = subst(m->body, args, false);
  char *buf; size_t len;
  FILE *out = open_memstream(&buf, &len);
  fputs("ok", out);
  for (Token *b = body; b && b->kind != TK_EOF; b = b->next) {
    fprintf(out, " %c%d%d.", kind_char(b), b->at_bol ? 1 : 0, b->has_space ? 1 : 0);
    for (int i = 0; i < b->len; i++)
      fprintf(out, "%02x", (unsigned char)b->loc[i]);
  }
  fputc('\n', out);
  fclose(out);
  fwrite(buf, 1, len, stdout);
  fflush(stdout);
  _exit(0);
}

int main(int argc, char **argv) {
  bool subst_mode = argc > 1 && !strcmp(argv[1], "-subst");
  for (int i = subst_mode ? 2 : 1; i < argc; i++) {
    fflush(stdout);
    pid_t pid = fork();
    if (pid < 0) {
      puts("crash fork");
      continue;
    }
    if (pid == 0) {
      if (chdir(argv[i]))
        _exit(4);
      fclose(stderr);
      stderr = fopen("/dev/null", "w");
      alarm(5);
      if (subst_mode)
        run_subst();
      run_one();
    }
    int status = 0;
    waitpid(pid, &status, 0);
    if (WIFEXITED(status) && WEXITSTATUS(status) == 0)
      continue;                       // the child printed its line
    if (WIFEXITED(status) && WEXITSTATUS(status) == 1)
      puts("err");
    else if (WIFSIGNALED(status) && WTERMSIG(status) == SIGALRM)
      puts("hang");
    else
      printf("crash %d\n", status);
  }
  return 0;
}
