#!/usr/bin/env python3
"""Runs checks against seeded changes.  usage: run_mutants.py [--only Cxx] [--dir seeded|mutants] [--tier quick]

For every <dir>/<id>/ with patch.diff + meta.json ({"property": "Cxx", ...}): copy /repo's working tree to a scratch
directory, apply the patch there (never in /repo), run `VERIF_REPO=<scratch> ./check Cxx`, and record whether a
VIOLATION was reported and whether a concrete replay was found.  Writes <dir>/RESULTS.md and prints the table."""
import os, sys, json, subprocess, shutil, tempfile, argparse, time
V = os.path.dirname(os.path.dirname(os.path.abspath(__file__)))
ap = argparse.ArgumentParser()
ap.add_argument('--only', default=None)
ap.add_argument('--dir', default='seeded')
ap.add_argument('--tier', default='quick')
ap.add_argument('--id', default=None)
a = ap.parse_args()
base = os.path.join(V, a.dir)
rows = []
for mid in sorted(os.listdir(base)):
    d = os.path.join(base, mid)
    if not os.path.isdir(d) or not os.path.exists(os.path.join(d, 'patch.diff')):
        continue
    if a.id and mid != a.id:
        continue
    meta = json.load(open(os.path.join(d, 'meta.json')))
    props = meta.get('checks') or [meta['property']]
    if a.only and a.only not in props:
        continue
    scratch = tempfile.mkdtemp(prefix='mut.', dir='/var/tmp')
    try:
        subprocess.check_call(['rsync', '-a', '--exclude=.git', '--exclude=*.o', '--exclude=/chibicc', '--exclude=*.exe', '/repo/', scratch + '/'])
        r = subprocess.run(['patch', '-p1', '-s', '--no-backup-if-mismatch', '-d', scratch, '-i', os.path.join(d, 'patch.diff')], capture_output=True, text=True)
        if r.returncode != 0:
            rows.append((mid, ','.join(props), 'PATCH DOES NOT APPLY', '', meta.get('summary', '')))
            continue
        for p in props:
            if not os.path.exists(os.path.join(V, 'checklib', p + '.py')):
                rows.append((mid, p, 'no check yet', '', meta.get('summary', '')))
                continue
            t0 = time.time()
            env = dict(os.environ, VERIF_REPO=scratch)
            r = subprocess.run([os.path.join(V, 'check'), p, '--tier', a.tier], cwd=V, env=env, capture_output=True, text=True, timeout=7200)
            vio = [l for l in r.stdout.splitlines() if l.startswith('VIOLATION')]
            if vio:
                kind = 'no-failing-input-found' if all('no-failing-input-found' in l for l in vio) else 'replay'
                rows.append((mid, p, 'DETECTED', f'{kind}, {time.time() - t0:.0f}s', meta.get('summary', '')))
            else:
                rows.append((mid, p, 'MISSED' if r.returncode == 0 else f'rc={r.returncode}', f'{time.time() - t0:.0f}s', meta.get('summary', '')))
    finally:
        shutil.rmtree(scratch, ignore_errors=True)
out = '| change | check | result | detail | what the change does |\n|---|---|---|---|---|\n' + ''.join(f'| {a_} | {b} | {c} | {d_} | {e} |\n' for a_, b, c, d_, e in rows)
print(out)
if not a.only and not a.id:
    open(os.path.join(base, 'RESULTS.md'), 'w').write(out)
