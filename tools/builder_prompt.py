#!/usr/bin/env python3
"""prints a builder prompt: builder_prompt.py Cxx <tag> <task-file>"""
import sys
pid, tag, task = sys.argv[1], sys.argv[2], open(sys.argv[3]).read()
print(open('/verif/tools/builder_prompt.txt').read().replace('{PID}', pid).replace('{TAG}', tag).replace('{TASK}', task)
      .replace('Cxx', pid).replace('cxx', pid.lower()))
