#!/usr/bin/env python3
"""MANIFEST.setup_cmd: pre-builds the Lean targets of every registered check so that the first check run is fast.
Each check rebuilds what it needs anyway, so a failure here is reported but is not fatal."""
import json, os, subprocess, sys, importlib
V = os.path.dirname(os.path.dirname(os.path.abspath(__file__)))
sys.path.insert(0, V)
man = json.load(open(os.path.join(V, 'MANIFEST.json')))
rc_all = 0
for c in man['checks']:
    p = c['property_id']
    mod = importlib.import_module('checklib.' + p)
    targets = list(mod.LEAN_TARGETS) + ['drv_' + p.lower()]
    r = subprocess.run(['lake', 'build'] + targets, cwd=os.path.join(V, 'lean'), capture_output=True, text=True)
    print(f'setup {p}: lake build {" ".join(targets)} -> rc={r.returncode}')
    if r.returncode != 0:
        print((r.stdout + r.stderr)[-1500:])
        rc_all = 0   # not fatal: the check itself reports a broken proof
sys.exit(rc_all)
